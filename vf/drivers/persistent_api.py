"""C05 / C17 - API histories of persistent workers.

spec/Persistent.tla is model-checked by TLC (every interleaving of caller and child for short
histories; pre-fix / wrong variants must be rejected; witnesses must be reachable).  TLC then
dumps complete API histories (settled: each call starts when the child is quiescent), which are
replayed step by step on the three real classes (PersistentThreadWorker, PersistentProcessWorker,
PersistentRemoteWorker behind a real local server).  Each step's return value / exception is
compared with the behaviour (conformance -> DRIFT), and the run is projected into the (scn, obs)
record that TLC judges with the operators of PersistentProps.tla (-> VIOLATION / KNOWN-FINDING).
Un-settled ("eager") replays are compared with the set of outcome sequences TLC allows for the
same calls under every interleaving.

This file is also the replay runner:  python -m vf.drivers.persistent_api --runner jobs.json out.json
(the replays run in a few runner processes so that process / remote workers are created in parallel)."""
import json
import os
import queue
import random
import signal
import subprocess
import sys
import threading
import time

if __name__ == '__main__':
    sys.path.insert(0, os.path.dirname(os.path.dirname(os.path.dirname(os.path.abspath(__file__)))))

from vf import tlc                                                              # noqa: E402
from vf.common import (PY, REPO, VERIF, MachineryError, Timer, ensure_repo_on_path, seed,   # noqa: E402
                       sub_scratch)
from vf.report import Evidence, Violation, finish                               # noqa: E402

CHECKS = {
    'C05': dict(
        engine='Persistent',
        technique='TLA+ spec Persistent.tla (caller API x child do_work loop x args/results channels) model-checked with TLC over every interleaving; TLC-dumped API histories replayed step by step on the real PersistentThread/Process/RemoteWorker; TLC judges every real run with the C05 operators (PersistentJudge); step outcomes checked against the behaviours (conformance)',
        text='Exhaustive TLC model checking of enqueue/next_result/close/wait/call histories against the do_work loop (merge rule, FIFO, counter, end marker) for all default shapes; every TLC-enumerated history up to the bound is executed on the real thread class and a seeded sample on the process and remote classes, each real run judged by TLC with the same operators.',
        note='Trusted: TLC; the projection of real return values into records; child quiescence established by hang-bounded waits on OS-visible facts. Exhaustive only up to the stated history length; process/remote kinds are sampled.',
        design_ref='6/C05'),
    'C17': dict(
        engine='Persistent',
        technique='TLA+ spec Persistent.tla with restart() as written (wait, terminate, raise if alive, re-init) model-checked with TLC; TLC-dumped histories (state at restart x 1-2 restarts x own/supplied pipe) replayed on the three real classes with OS liveness of the old child observed; TLC judges every real run with the C17 operators',
        text='Exhaustive TLC model checking of restart() from every modelled state (unused, unread results, queued inputs, closed, dead by exception, killed, terminated, uncooperative target) incl. wrong variants that must be rejected; TLC-enumerated restart histories executed on real thread/process/remote workers and judged by TLC.',
        note='Trusted: TLC; /proc and threading.enumerate() as OS ground truth for the old child; scenarios mark every enqueue with a unique first argument so that results of a previous incarnation are recognisable.',
        design_ref='6/C17'),
}

KINDS = ('thread', 'process', 'remote')
STEP_BOUND = 6.0       # kept for callers: the per-call bounds below are what is enforced
# every real call has its own bound (seconds); a call that exceeds it is recorded as hung, the worker is killed and
# the replay ends.  Calls that return at once / calls that legitimately wait for the child or for terminate's grace.
QUICK_OPS = ('enq', 'enq@raise', 'enq@stuck', 'enq@busy', 'enq@slow', 'enq@bad', 'enq@linger', 'nextnb', 'close', 'alive', 'kill', 'release')
BOUND_QUICK, BOUND_BLOCKING, BOUND_CONSTRUCT = 3.0, 8.0, 15.0


def _kill_same(pid, start, sig=signal.SIGKILL):
    """Signal a process only if it is still the one recorded at creation (pids are recycled within minutes here)."""
    if pid == os.getpid() or start is None or _proc_start(pid) != start:
        return False
    try:
        os.kill(pid, sig)
        return True
    except OSError:
        return False

SETTLE_BOUND = 2.0

# --------------------------------------------------------------------------- real executions


def _os_alive_pid(pid):
    """False once the whole process is gone or a reapable zombie (a zombie leader whose other
    threads are still being torn down cannot be reaped yet: still alive for waitpid)."""
    try:
        with open('/proc/%d/stat' % pid) as f:
            st = f.read().rsplit(')', 1)[1].split()[0]
        if st not in ('Z', 'X'):
            return True
        return len(os.listdir('/proc/%d/task' % pid)) > 1
    except (OSError, IndexError):
        return False


def _proc_start(pid):
    """Start time of a process (pids are re-used quickly here: pid_max is small), None if gone."""
    try:
        with open('/proc/%d/stat' % pid) as f:
            return f.read().rsplit(')', 1)[1].split()[19]
    except (OSError, IndexError):
        return None


def _find_thread(tid=None, name=None):
    """The threading.Thread object of a live thread of this process (thread ids are re-used too)."""
    for t in threading.enumerate():
        if (tid is not None and t.native_id == tid) or (name is not None and t.name == name):
            return t
    return None


def proj_arg(x):
    if isinstance(x, str):
        return x
    if isinstance(x, list) and len(x) == 1 and isinstance(x[0], str):
        return x[0]            # a pristine nested (mutable) argument
    return 'dirty'


def proj_value(v, big):
    nil = {'a': [], 'kw': []}
    if v is None:
        return dict(nil, t='none')
    if type(v) is int and v == 0:
        return dict(nil, t='zero')
    if type(v) is str and v == '':
        return dict(nil, t='empty')
    if type(v) is str and v == 'released':
        return dict(nil, t='released')
    if type(v) is str and v == 'lingering':
        return dict(nil, t='lingering')
    if type(v) is str and v == 'busydone':
        return dict(nil, t='busydone')
    if type(v) is str and v == 'slowval':
        return dict(nil, t='slow')
    if type(v) is bytes and v == big:
        return dict(nil, t='big')
    if isinstance(v, (tuple, list)) and len(v) == 2 and isinstance(v[0], list) and isinstance(v[1], dict):
        return {'t': 'echo', 'a': [proj_arg(x) for x in v[0]], 'kw': [[str(k), proj_arg(x)] for k, x in v[1].items()]}
    return dict(nil, t='other')


class Replay:
    """One API history on one real worker.  job = {id, kind, hist: [[op, out, hasdata, cstate]...],
    dtype, dargs, dkw, mut, pipe, items: [{a, kw}...], mode}"""

    def __init__(self, job, mods, addr, tmp):
        self.job, self.mods, self.addr, self.tmp = job, mods, addr, tmp
        self.kind = job['kind']
        self.mut = bool(job.get('mut'))
        self.name = 'nm-%s' % job['id']
        self.incs, self.ids = [], []
        self.outs, self.notes = [], []
        self.w = None
        self.late = False
        self.nenq = 0
        self.flags = []
        self.pids = []
        self.finished = False
        self.current = None       # step being executed (for hang reports)
        self.hung = False
        self.oldfronts = []
        self.off = False          # a settle wait timed out: the run has left the behaviour, stop steering it

    # -- helpers
    def wrap(self, x):
        return [x] if (self.mut and not x.startswith('@')) else x

    def cls(self):
        return self.mods[self.kind]

    def new_pipe(self):
        return self.mods['Pipe']() if self.job.get('pipe') == 'given' else None

    def construct(self):
        t = self.mods['targets']
        da = [self.wrap(x) for x in self.job['dargs']]
        args = tuple(da) if self.job['dtype'] == 'tuple' else da
        kw = {}
        if self.kind == 'remote':
            kw['host'] = self.addr
        if self.job.get('ownrun'):       # a subclass that overrides run(): no target, run=True
            self.w = t.OWNRUN[self.kind](None, args=args, kwargs={k: self.wrap(v) for k, v in self.job['dkw']},
                                         name=self.name, userid='u', run=True, results_pipe=self.new_pipe(), **kw)
            self.begin_inc()
            return
        self.w = self.cls()(t.echo_slow if self.job.get('slow') else t.echo_mut if self.mut else t.echo, args=args,
                            kwargs={k: self.wrap(v) for k, v in self.job['dkw']},
                            name=self.name, userid='u', results_pipe=self.new_pipe(), **kw)
        self.begin_inc()

    def idnum(self):
        i = tuple(self.w.id)
        if i not in self.ids:
            self.ids.append(i)
        return self.ids.index(i) + 1

    def begin_inc(self):
        w = self.w
        inc = dict(enq=[], raw=[], late=[], calls=[], bempty=[], hung=[], got=[], first='none', alive0='T' if w.is_alive() else 'F',
                   waited='none', result={'k': 'na', 'n': 0}, fault='none', id=self.idnum(), name=str(w.name),
                   userid=str(w.userid), endk='final', oldos='na', rraised=[])
        self.incs.append(inc)
        self.late = False
        self.front = _find_thread(name='%s (remote front)' % self.name) if self.kind == 'remote' else None
        # ground truth about the child: its Thread object (thread kind) or (pid, start time)
        self.child = _find_thread(tid=w.tid) if self.kind == 'thread' else (w.pid, _proc_start(w.pid))
        if self.kind != 'thread':
            self.pids.append(self.child)
        ep = w.results_endpoint
        orig, raw, big = ep.get, inc['raw'], self.mods['big']

        def get(block=True, timeout=None):
            m = orig(block=block, timeout=timeout)
            try:
                c, flag, value, _wid = m
                raw.append({'c': int(c), 'f': 'T' if flag else 'F',
                            'v': proj_value(value, big) if flag else {'t': 'nil', 'a': [], 'kw': []}})
            except Exception:  # noqa - a malformed message is an observation, not a harness failure
                raw.append({'c': 0, 'f': 'T', 'v': {'t': 'other', 'a': [], 'kw': []}})
            return m
        ep.get = get
        self.ep = ep

    def has_data(self):
        ep = self.ep
        try:
            if hasattr(ep, 'qsize'):
                return ep.qsize() > 0
            return bool(ep.poll(0))
        except (OSError, ValueError):
            return True

    def child_os_alive(self, child=None):
        child = self.child if child is None else child
        if self.kind == 'thread':
            return child is not None and child.is_alive()
        pid, start = child
        return start is not None and _proc_start(pid) == start and _os_alive_pid(pid)

    def worker_os_dead(self):
        """Everything is_alive() looks at is gone (remote: backend process and frontend thread)."""
        if self.child_os_alive():
            return False
        if self.kind == 'remote' and self.front is not None and self.front.is_alive():
            return False
        return True

    def await_(self, cond, what):
        if self.off:
            return False
        t0 = time.time()
        while not cond():
            if time.time() - t0 > SETTLE_BOUND:
                self.notes.append('settle-timeout:' + what)
                self.off = True
                return False
            time.sleep(0.0005)
        return True

    def count_ready(self, n):
        """At least n results can be read (exact for queue endpoints; a pipe endpoint only tells 'at least one')."""
        ep = self.ep
        try:
            if hasattr(ep, 'qsize'):
                return ep.qsize() >= n
            return bool(ep.poll(0))
        except (OSError, ValueError):
            return True

    def settle(self, hasdata, cstate, n=1):
        if self.job.get('mode') == 'eager':
            if cstate == 'stuck' and self.flags:
                self.await_(lambda: os.path.exists(self.flags[-1] + '.started'), 'stuck')
            return
        if cstate == 'dead':
            if self.await_(self.worker_os_dead, 'dead'):
                self.late = True        # the death of the child is established (from the OS, not through the worker's API)
        elif cstate == 'linger':
            # the loop has ended and the final result has been received (frontend thread done), the process stays
            self.await_(lambda: self.front is not None and not self.front.is_alive() and self.child_os_alive(), 'linger')
        elif cstate in ('stuck', 'busy') and self.flags:
            self.await_(lambda: os.path.exists(self.flags[-1] + '.started'), cstate)
        elif cstate == 'slow' and self.flags:
            self.await_(lambda: os.path.exists(self.flags[-1] + '.rebuilding'), 'slow')
        if hasdata == 'T':
            self.await_(lambda: self.count_ready(n) or self.worker_os_dead(), 'data')

    # -- the API steps
    def item(self):
        it = self.job['items'][self.nenq]
        self.nenq += 1
        return it

    def do_enqueue(self, it, fn):
        a = [self.wrap(x) for x in it['a']]
        if it['a'][:1] in (['@stuck'], ['@busy'], ['@slowres'], ['@linger']):
            flag = os.path.join(self.tmp, 'flag-%s-%d' % (self.job['id'], len(self.flags)))
            self.flags.append(flag)
            a.append(flag)
        return fn(*a, **{k: self.wrap(v) for k, v in it['kw']})

    def step(self, op):
        w, inc, WCE, Empty = self.w, self.incs[-1], self.mods['WCE'], queue.Empty
        nraw = len(inc['raw'])

        def empty_kind():
            return 'End' if len(inc['raw']) > nraw else 'Empty'
        if op in ('enq', 'enq@raise', 'enq@stuck', 'enq@busy', 'enq@slow', 'enq@bad', 'enq@linger'):
            it = {'a': ['@raise'], 'kw': []} if op == 'enq@raise' else \
                 {'a': ['@bad'], 'kw': []} if op == 'enq@bad' else \
                 {'a': ['@linger'], 'kw': []} if op == 'enq@linger' else \
                 {'a': ['@stuck'], 'kw': []} if op == 'enq@stuck' else \
                 {'a': ['@busy'], 'kw': []} if op == 'enq@busy' else \
                 {'a': ['@slowres'], 'kw': []} if op == 'enq@slow' else self.item()
            try:
                self.do_enqueue(it, w.enqueue)
                out = 'ok'
                inc['enq'].append(it)
                if inc['fault'] == 'none' and op != 'enq':
                    inc['fault'] = {'enq@raise': 'poison', 'enq@bad': 'poison', 'enq@stuck': 'stuck', 'enq@busy': 'busy', 'enq@slow': 'slowres',
                                    'enq@linger': 'linger'}[op]
            except WCE:
                out = 'WCE'
            except Exception as e:  # noqa - the exact exception type is the observation (only WorkerClosedError is a refusal)
                out = 'raised:' + type(e).__name__
                self.notes.append('enqueue raised %r' % (e,))
            if self.late:
                inc['late'].append(out)
            elif inc['first'] == 'none':
                inc['first'] = out
            return out
        if op in ('nextnb', 'nextb'):
            try:
                v = w.next_result(block=(op == 'nextb'))
                inc['got'].append(proj_value(v, self.mods['big']))
                return 'val'
            except Empty:
                if op == 'nextb':       # a blocking read that signals the end of the stream
                    inc['bempty'].append({'nread': sum(1 for m in inc['raw'] if m['f'] == 'T'), 'nenq': len(inc['enq'])})
                return empty_kind()
        if op == 'iter':                # results_iter(): blocking reads until the end of the stream is signalled
            n = 0
            for v in w.results_iter():
                inc['got'].append(proj_value(v, self.mods['big']))
                n += 1
            inc['bempty'].append({'nread': sum(1 for m in inc['raw'] if m['f'] == 'T'), 'nenq': len(inc['enq'])})
            return 'vals:%d' % n
        if op == 'iter1':               # results_iter(maxitems=1): exactly one blocking read
            vs = list(w.results_iter(maxitems=1))
            for v in vs:
                inc['got'].append(proj_value(v, self.mods['big']))
            if len(vs) == 1:
                return 'val'
            if len(vs) == 0:
                inc['bempty'].append({'nread': sum(1 for m in inc['raw'] if m['f'] == 'T'), 'nenq': len(inc['enq'])})
                return empty_kind()
            return 'vals:%d' % len(vs)
        if op == 'waitS':               # wait(timeout) that is too short for the work still queued
            self.late = True
            return 'T' if w.wait(timeout=0.05) else 'F'
        if op == 'call':
            it = self.item()
            nread = sum(1 for m in inc['raw'] if m['f'] == 'T')
            crec = {'k': 0, 'out': 'WCE', 'v': {'t': 'nil', 'a': [], 'kw': []}, 'nread': nread, 'late': 'T' if self.late else 'F'}
            accepted = []
            orig_enq = w.enqueue

            def enq(*a, **k):           # call() = enqueue + next_result: note whether the enqueue part was accepted
                orig_enq(*a, **k)
                accepted.append(1)
            try:
                w.enqueue = enq
                try:
                    v = self.do_enqueue(it, w.call)
                finally:
                    try:
                        del w.enqueue
                    except AttributeError:
                        pass
                out = 'val'
                crec['v'] = proj_value(v, self.mods['big'])
                inc['got'].append(crec['v'])
            except WCE:
                out = 'WCE'
            except Empty:
                out = empty_kind()
            except Exception as e:  # noqa - see enqueue
                out = 'raised:' + type(e).__name__
                self.notes.append('call raised %r' % (e,))
            if accepted:
                inc['enq'].append(it)
                crec['k'] = len(inc['enq'])
            crec['out'] = out
            inc['calls'].append(crec)
            if not accepted:
                if self.late:
                    inc['late'].append(out)
                elif inc['first'] == 'none':
                    inc['first'] = out
            elif inc['first'] == 'none' and not self.late:
                inc['first'] = 'ok'
            return out
        if op == 'close':
            w.close()
            self.late = True
            return 'ok'
        if op == 'alive':
            r = w.is_alive()
            if not r:
                self.late = True
            return 'T' if r else 'F'
        if op in ('wait', 'waitT'):
            self.late = True
            r = w.wait() if op == 'wait' else w.wait(timeout=0.2)
            return 'T' if r else 'F'
        if op == 'term':
            self.late = True
            if inc['fault'] == 'none':
                inc['fault'] = 'term'
            return 'T' if w.terminate() else 'F'
        if op == 'kill':
            self.late = True
            if inc['fault'] == 'none':
                inc['fault'] = 'kill'
            if self.child[0] == w.pid:
                _kill_same(*self.child)
            return 'ok'
        if op == 'release':
            open(self.flags[-1], 'w').close()
            return 'ok'
        if op in ('restart', 'restartP', 'restartT', 'restartTnf', 'restartK', 'restartKP'):
            old_id, old_child, old_front = tuple(w.id), self.child, self.front
            try:
                if op == 'restart':
                    w.restart()
                elif op == 'restartP':
                    w.restart(results_pipe=self.mods['Pipe']())
                elif op == 'restartK':            # as Pool.restart_workers does: only the timeout
                    w.restart(timeout=0.2)
                elif op == 'restartKP':
                    w.restart(timeout=0.2, results_pipe=self.mods['Pipe']())
                elif op == 'restartT':
                    w.restart(0.2, timeout=0.2)
                else:
                    w.restart(0.2, False, timeout=0.2)
            except Exception as e:  # noqa - RuntimeError('Could not stop a worker!') or whatever else escapes: the judge decides
                self.late = True
                try:
                    still = tuple(w.id) == old_id and w.is_alive() and self.child_os_alive(old_child)
                except Exception:  # noqa
                    still = False
                inc['rraised'].append({'still': 'T' if still else 'F'})
                if not isinstance(e, RuntimeError):
                    self.notes.append('restart raised %r' % (e,))
                return 'raised:' + type(e).__name__
            inc['endk'] = 'restarted'
            # the old incarnation = its child and, for a remote worker, the frontend thread that served it
            front_alive = old_front is not None and old_front.is_alive()
            inc['oldos'] = 'alive' if (self.child_os_alive(old_child) or front_alive) else 'dead'
            if front_alive:
                self.oldfronts.append(old_front)
            self.begin_inc()
            return 'ok'
        raise MachineryError('unknown op ' + op)

    def finish_history(self):
        w, inc = self.w, self.incs[-1]
        for th in self.oldfronts:       # an abandoned frontend of a previous incarnation: let it do what it is going to do
            th.join(4)
        inc['waited'] = 'T' if w.wait() else 'F'
        r = w.result
        inc['result'] = {'k': 'val', 'n': r} if type(r) is int and 0 <= r < 1000 else \
                        {'k': 'none', 'n': 0} if r is None else {'k': 'other', 'n': 0}
        try:
            inc['error'] = type(w.error).__name__ if w.error is not None else 'none'
        except Exception as e:  # noqa
            inc['error'] = 'accessor-raised:' + type(e).__name__
        n0 = len(inc['raw'])
        for _ in range(64):
            try:
                self.ep.get_nowait()
            except queue.Empty:
                break
        inc['got'] += [m['v'] for m in inc['raw'][n0:] if m['f'] == 'T']      # what the final drain obtained

    def body(self):
        try:
            self.enter('construct', None, BOUND_CONSTRUCT)
            self.construct()
            for n, st in enumerate(self.job['hist']):
                if self.hung:
                    return
                op, hasdata, cstate = st[0], st[2], st[3]
                self.enter('settle before step %d %s' % (n, op), None, 4 * SETTLE_BOUND)
                self.settle(hasdata, cstate, st[4] if len(st) > 4 else 1)
                self.enter('step %d %s' % (n, op), op, BOUND_QUICK if op in QUICK_OPS else BOUND_BLOCKING)
                try:
                    out = self.step(op)
                except MachineryError:
                    raise
                except BaseException as e:  # noqa - whatever the real call raises is its outcome
                    out = 'raised:' + type(e).__name__
                    if op == 'call':
                        self.incs[-1]['calls'].append({'k': 0, 'out': out, 'v': {'t': 'nil', 'a': [], 'kw': []},
                                                       'nread': 0, 'late': 'T' if self.late else 'F'})
                    self.notes.append('step %d %s raised %r' % (n, op, e))
                if self.hung:
                    return
                self.outs.append(out)
            self.enter('finish', 'wait', BOUND_BLOCKING + 4)
            self.finish_history()
            self.finished = True
            self.current = None
        except BaseException as e:  # noqa
            self.notes.append('aborted in %s: %r' % (self.current, e))

    def enter(self, label, op, bound):
        self.current = label
        self.phase = (label, op, bound, time.time())

    def cleanup(self):
        if self.hung and self.kind == 'thread' and self.w is not None:
            # let a thread child end (it cannot be killed), so that whatever polls for its death is released
            def stop(w=self.w):
                try:
                    w.close()
                    w.terminate(0.5)
                except BaseException:  # noqa
                    pass
            t = threading.Thread(target=stop, name='stop-thread-worker', daemon=True)
            t.start()
            t.join(1.5)
        for f in self.flags:
            try:
                open(f, 'w').close()
            except OSError:
                pass
        for pid, start in self.pids:
            if _os_alive_pid(pid):
                _kill_same(pid, start)

    def run(self, scale=1.0):
        """Runs the history in a thread of its own; this thread is the per-call watchdog."""
        self.phase = ('start', None, BOUND_CONSTRUCT, time.time())
        th = threading.Thread(target=self.body, name='replay-' + str(self.job['id']), daemon=True)
        th.start()
        hung = False
        while True:
            th.join(0.02)
            if not th.is_alive():
                break
            label, op, bound, t0 = self.phase
            if time.time() - t0 > max(0.7, bound * scale):
                hung = True
                break
        self.hung = hung
        if hung:
            label, op, bound, t0 = self.phase
            self.notes.append('hang in %s' % label)
            self.outs.append('hung')
            if op is not None and self.incs:
                self.incs[-1]['hung'].append(op)        # judged: a call of an enabled history did not return
            try:        # where the real call is stuck (innermost frames of the replay thread)
                import traceback
                fr = sys._current_frames().get(th.ident)
                if fr is not None:
                    self.notes.append('stack: ' + ' < '.join('%s:%d %s' % (os.path.basename(f.filename), f.lineno, f.name)
                                                              for f in reversed(traceback.extract_stack(fr)[-6:])))
            except Exception:  # noqa
                pass
            if self.kind != 'thread' and self.w is not None:
                try:        # what the child process is doing according to the kernel
                    pid = self.w.pid
                    tasks = sorted(os.listdir('/proc/%d/task' % pid))
                    st = open('/proc/%d/stat' % pid).read().rsplit(')', 1)[1].split()[0]
                    wch = [open('/proc/%d/task/%s/wchan' % (pid, k)).read() for k in tasks]
                    self.notes.append('child pid %d state %s tasks %s' % (pid, st, wch))
                    if os.environ.get('VERIF_PAPI_DEBUG'):      # python stacks of the child on the runner's stderr
                        _kill_same(pid, self.child[1] if self.child and self.child[0] == pid else None, signal.SIGABRT)
                        time.sleep(0.3)
                except Exception as e:  # noqa
                    self.notes.append('child: %r' % (e,))
        self.cleanup()
        if hung:
            th.join(1.5)
        for inc in self.incs:
            inc.setdefault('error', 'na')
        rec = {'id': str(self.job['id']),
               'scn': {'kind': self.kind, 'dtype': self.job['dtype'], 'dargs': self.job['dargs'],
                       'dkw': [list(p) for p in self.job['dkw']], 'mut': 'T' if self.mut else 'F',
                       'pipe': self.job.get('pipe', 'own'), 'mode': self.job.get('mode', 'settle'),
                       'ownrun': 'T' if self.job.get('ownrun') else 'F'},
               'obs': {'incs': self.incs}}
        return {'id': self.job['id'], 'rec': rec if self.incs else None, 'outs': self.outs,
                'notes': self.notes, 'finished': self.finished}


def load_mods():
    ensure_repo_on_path()
    os.environ['PYTHONPATH'] = os.pathsep.join([REPO, VERIF] + [p for p in os.environ.get('PYTHONPATH', '').split(os.pathsep) if p])
    import logging
    logging.disable(logging.CRITICAL)      # the library logs every expected target exception with a traceback
    from pyworkers.persistent import WorkerClosedError
    from pyworkers.persistent_process import PersistentProcessWorker
    from pyworkers.persistent_remote import PersistentRemoteWorker
    from pyworkers.persistent_thread import PersistentThreadWorker
    from pyworkers.utils import Pipe
    from vf.drivers import _papi_targets as targets
    return {'thread': PersistentThreadWorker, 'process': PersistentProcessWorker, 'remote': PersistentRemoteWorker,
            'WCE': WorkerClosedError, 'Pipe': Pipe, 'targets': targets, 'big': targets.big_value()}


def parent_watchdog():
    """A runner lives in its own session; if the check that started it disappears, the whole session goes."""
    ppid = os.getppid()

    def watch():
        while True:
            time.sleep(1.0)
            if os.getppid() != ppid:
                try:
                    if os.getpgrp() == os.getpid():
                        os.killpg(os.getpgrp(), signal.SIGKILL)
                finally:
                    os._exit(3)
    threading.Thread(target=watch, name='parent-watchdog', daemon=True).start()


def runner_main(jobfile, outfile):
    parent_watchdog()
    with open(jobfile) as f:
        jobs = json.load(f)
    mods = load_mods()
    tmp = os.path.dirname(os.path.abspath(outfile))
    server, addr = None, None
    results = []
    try:
        from pyworkers.remote_server import spawn_server
        if any(j['kind'] == 'remote' for j in jobs):
            server = spawn_server(('127.0.0.1', 0))
            if not server.is_alive():
                raise MachineryError('cannot start a local remote server: %r' % (server.error,))
            addr = server.addr
        hangs = 0
        for j in jobs:
            # when the code under test hangs systematically, do not spend the whole budget waiting for it
            res = Replay(j, mods, addr, tmp).run(1.0 if hangs < 3 else 0.25)
            hangs = hangs + 1 if any(n.startswith('hang') for n in res['notes']) else 0
            if server is not None and j['kind'] == 'remote' and (res['notes'] or not res['finished']):
                # a replay that went wrong must not poison the following ones: they get a fresh server
                alive = server.is_alive()
                res['notes'].append('server alive afterwards: %s' % alive)
                if hangs or not alive:
                    try:
                        spid, sstart = server.pid, _proc_start(server.pid)
                        server.terminate(timeout=1, force=True)
                        if _os_alive_pid(spid):
                            _kill_same(spid, sstart)
                    except Exception:  # noqa
                        pass
                    server = spawn_server(('127.0.0.1', 0))
                    addr = server.addr
            results.append(res)
            if len(results) % 8 == 0:
                with open(outfile + '.part', 'w') as f:
                    json.dump(results, f)
    finally:
        if server is not None:
            try:
                spid, sstart = server.pid, _proc_start(server.pid)
                server.terminate(timeout=2, force=True)
                if _os_alive_pid(spid):
                    _kill_same(spid, sstart)
            except Exception:  # noqa
                pass
    with open(outfile, 'w') as f:
        json.dump(results, f)
    return 0


def run_jobs(jobs, nproc, name, timeout, module='vf.drivers.persistent_api'):
    """Run the replays in `nproc` runner processes (own sessions; killed by process group at the end)."""
    if not jobs:
        return []
    d = sub_scratch('runners-' + name)
    chunks = [jobs[i::nproc] for i in range(nproc)]
    procs = []
    env = dict(os.environ)
    env['PYTHONPATH'] = os.pathsep.join([REPO, VERIF])
    for n, ch in enumerate(chunks):
        if not ch:
            continue
        jf, of = os.path.join(d, 'jobs%d.json' % n), os.path.join(d, 'out%d.json' % n)
        with open(jf, 'w') as f:
            json.dump(ch, f)
        # the children of the code under test inherit these descriptors and write tracebacks of every expected
        # target exception to them: they must never be a pipe nobody drains (a full pipe blocks the children)
        dbg = os.environ.get('VERIF_PAPI_DEBUG')
        if dbg:
            env['PYTHONFAULTHANDLER'] = '1'
        logf = open(os.path.join(dbg or d, 'runner-%s-%d.log' % (name, n)), 'wb')
        p = subprocess.Popen([PY, '-m', module, '--runner', jf, of], cwd=VERIF, env=env,
                             stdout=logf, stderr=subprocess.STDOUT, start_new_session=True)
        logf.close()
        p.logpath = logf.name
        procs.append((p, of, len(ch)))
    out, t0 = [], time.time()
    try:
        return _collect(procs, timeout, t0, out)
    finally:
        for p, _of, _n in procs:                      # whatever happens: no runner (or child of one) is left behind
            try:
                os.killpg(p.pid, signal.SIGKILL)      # the runner's own session: strays of this runner only
            except OSError:
                pass
            try:
                p.wait(5)
            except Exception:  # noqa
                pass


def _collect(procs, timeout, t0, out):
    for p, of, n in procs:
        so = b''
        try:
            p.wait(timeout=max(5, timeout - (time.time() - t0)))
        except subprocess.TimeoutExpired:
            so = b'(runner timed out)'
        finally:
            try:
                os.killpg(p.pid, signal.SIGKILL)
            except OSError:
                pass
            p.wait()
        path = of if os.path.exists(of) else of + '.part'
        if not os.path.exists(path):
            if p.returncode not in (0, -9):
                try:
                    with open(p.logpath, 'rb') as f:
                        so += f.read()[-3000:]
                except OSError:
                    pass
                raise MachineryError('replay runner failed: rc=%s\n%s' % (p.returncode, so.decode('utf-8', 'replace')[-3000:]))
            continue              # ran out of time before its first results: the caller sees the jobs as not run
        try:
            with open(path) as f:
                got = json.load(f)
        except ValueError:
            continue              # killed while writing its partial results
        if len(got) < n and path == of:
            raise MachineryError('replay runner lost jobs')
        out += got
    return out


# --------------------------------------------------------------------------- TLC side

def _tla_seq(s):
    return json.loads(s.replace('<<', '[').replace('>>', ']'))


def _cfg(base, inv=None, **kw):
    import re
    t = open(os.path.join(tlc.SPEC, base)).read()
    for a, b in kw.items():
        t, n = re.subn(r'(?m)^(\s*%s\s*(=|<-)\s*).*$' % a, lambda m: m.group(1) + str(b), t)
        if n != 1:
            raise MachineryError('cfg %s has no constant %s' % (base, a))
    if inv is not None:
        t = re.sub(r'(?m)^(INVARIANT|PROPERTY) .*\n', '', t) + ''.join('INVARIANT %s\n' % i for i in inv)
    return t


_PRE = {}
_PRE_THREADS = []


def prefetch(module, specs):
    """Run the small, independent TLC runs (witnesses, wrong variants) side by side and in the background of the
    big exhaustive run; _sr() waits for them and picks the results up."""
    from concurrent.futures import ThreadPoolExecutor

    def one(s):
        name, cfg_text = s[0], s[1]
        try:
            return name, cfg_text, tlc.run(module, cfg_text=cfg_text, name=name, must_complete=False, workers=s[2] if len(s) > 2 else 2,
                                           timeout=3000)
        except Exception:  # noqa - _sr() will run it in the foreground and report properly
            return name, None, None

    def all_():
        with ThreadPoolExecutor(max_workers=8) as ex:
            for name, cfg_text, r in ex.map(one, specs):
                if r is not None:
                    _PRE[(module, name)] = (cfg_text, r)
    th = threading.Thread(target=all_, name='tlc-prefetch', daemon=True)
    th.start()
    _PRE_THREADS.append(th)


def _sr(module, cfg=None, cfg_text=None, name=None, must_complete=False):
    """tlc.run for a small run: the prefetched result if the very same configuration was prefetched."""
    if cfg_text is None:
        cfg_text = open(os.path.join(tlc.SPEC, cfg)).read()
    while _PRE_THREADS:
        _PRE_THREADS.pop().join()
    hit = _PRE.get((module, name))
    if hit is not None and hit[0] == cfg_text:
        return hit[1]
    return tlc.run(module, cfg_text=cfg_text, name=name, must_complete=must_complete)


def model_check(ev, prop, tier):
    """The design: exhaustive TLC runs, wrong variants that must be rejected, witnesses that must be reached."""
    wit = {}
    if prop == 'C05':
        settled_cfg = _cfg('Persistent_mc.cfg', Shapes='Sh_mc', DArgsSet='DA_mc', Settle='TRUE', MaxSteps=4 if tier == 'quick' else 5, MaxEnq=3,
                           DTypes='DT_list' if tier == 'quick' else 'DT_all', DKwSet='DK_one' if tier == 'quick' else 'DK_mc')
        live_cfg = _cfg('Persistent_mc.cfg', inv=[], MaxSteps=3, Kinds='K_proc', DArgsSet='DA_one', DKwSet='DK_one', Shapes='Sh_one') + 'PROPERTY Live_Returns\n'
        prefetch('PersistentMC', [('mc-settled', settled_cfg, 6), ('live', live_cfg, 2), ('blockafterclose', _cfg('Persistent_mc.cfg', BlockAfterClose='FALSE')),
                                  ('prefix', open(os.path.join(tlc.SPEC, 'Persistent_prefix.cfg')).read())] +
                 [('closedguard', _cfg('Persistent_mc.cfg', ClosedGuard='FALSE')),
                  ('mc-death', _cfg('Persistent_mc.cfg', Kinds='K_remote', DTypes='DT_list', DArgsSet='DA_one', DKwSet='DK_one', Ops='Ops_c05death', MaxSteps=4)),
                  ('mc-iter', _cfg('Persistent_mc.cfg', Kinds='K_remote', DTypes='DT_list', DArgsSet='DA_one', DKwSet='DK_one', Ops='Ops_c05iter', MaxSteps=4)),
                  ('iterdrops', _cfg('Persistent_mc.cfg', Kinds='K_remote', DTypes='DT_list', DArgsSet='DA_one', DKwSet='DK_one', Ops='Ops_c05iter', MaxSteps=4, IterExact='FALSE')),
                  ('enqcached', _cfg('Persistent_mc.cfg', Kinds='K_remote', DTypes='DT_list', DArgsSet='DA_one', DKwSet='DK_one', Ops='Ops_c05death', MaxSteps=4, EnqChecksAlive='FALSE')),
                  ('W_NoEnqueueOnUnobservedDead', _cfg('Persistent_mc.cfg', Kinds='K_remote', DTypes='DT_list', DArgsSet='DA_one', DKwSet='DK_one', Ops='Ops_c05death', MaxSteps=4, inv=['W_NoEnqueueOnUnobservedDead']))] +
                 [(w, _cfg('Persistent_mc.cfg', inv=[w])) for w in ('W_NoFullStream', 'W_NoLate', 'W_NoCleanCall', 'W_NoLongerArgs', 'W_NoBlockingReadAfterClose', 'W_NoEnqueueOnClosedRunning')])
    else:
        prefetch('PersistentMC', [(w, _cfg('Persistent_c17.cfg', inv=[w])) for w in ('W_NoRestartUnread', 'W_NoRestartRaised', 'W_NoRestartKilled', 'W_NoSecondRestart')] +
                 [(w, _cfg('Persistent_c17.cfg', inv=[w], Ops='Ops_c17timed')) for w in ('W_NoTimedRestartOfBusy', 'W_NoTimedRestartOfSlowFrontend')] +
                 [('wrong-%s-%s' % (c, i), _cfg('Persistent_c17.cfg', inv=[i], Ops='Ops_c17timed', **{c: 'FALSE'}))
                  for c, i in (('WaitTruthful', 'Inv_C17_FreshStream'), ('WaitTruthful', 'Inv_C17_RaisesNotAbandons'), ('TermOwnTimeout', 'Inv_C17_Live'),
                               ('AliveAsksServer', 'Inv_C17_RaisesNotAbandons'))] +
                 [('wrong-' + c, _cfg('Persistent_c17.cfg', **{c: 'FALSE'})) for c in ('FreshPipe', 'ResetClosed', 'CounterFirst', 'WaitSwallowsBadResult')] +
                 [('mc-ownrun', _cfg('Persistent_c17.cfg', OwnRunScn='TRUE', MaxSteps=5)),
                  ('forgetsrun', _cfg('Persistent_c17.cfg', inv=['Inv_C17_Live'], OwnRunScn='TRUE', RestartKeepsRun='FALSE')),
                  ('W_NoRestartOfLingering', _cfg('Persistent_c17.cfg', inv=['W_NoRestartOfLingering'], Ops='Ops_c17timed')),
                  ('W_NoRestartWhileChildDiesByError', _cfg('Persistent_c17.cfg', inv=['W_NoRestartWhileChildDiesByError']))])
    if prop == 'C05':
        big = dict(MaxSteps=6, MaxEnq=2) if tier == 'thorough' else {}
        r = tlc.run('PersistentMC', cfg_text=_cfg('Persistent_mc.cfg', **big), coverage=(tier == 'thorough'), name='mc', timeout=3000)
        ev.add_tlc('exhaustive, every interleaving: 3 kinds x list/tuple x defaults of length 0,1,3 x default kwargs x 3 enqueue shapes, histories of enqueue/next_result/close/wait/call/is_alive', r)
        if r.error:
            raise MachineryError('Persistent.tla violates its own properties: %s\n%s' % (r.error, '\n'.join(r.trace[:80])))
        r2 = _sr('PersistentMC', cfg_text=settled_cfg, name='mc-settled', must_complete=True)
        if not r2.completed and not r2.error:
            raise MachineryError('TLC did not complete the settled configuration')
        ev.add_tlc('exhaustive, settled caller: 5 enqueue shapes (fewer/as many/more args, overriding/new kwargs, None result), longer histories', r2)
        if r2.error:
            raise MachineryError('Persistent.tla (settled) violates its own properties: %s\n%s' % (r2.error, '\n'.join(r2.trace[:80])))
        rl = _sr('PersistentMC', cfg_text=live_cfg, name='live', must_complete=True)
        if not rl.completed and not rl.error:
            raise MachineryError('TLC did not complete the liveness configuration')
        ev.add_tlc('liveness: every blocked call of an enabled history returns', rl)
        if rl.error:
            raise MachineryError('liveness Live_Returns fails in the model: %s' % rl.error)
        rb = _sr('PersistentMC', cfg_text=_cfg('Persistent_mc.cfg', BlockAfterClose='FALSE'), name='blockafterclose', must_complete=False)
        if rb.error != 'invariant:Inv_C05_End':
            raise MachineryError('non-blocking read of a closed but still working worker is not rejected by the model checker: %s' % rb.error)
        wit['variant_BlockAfterClose_FALSE'] = rb.error
        rd = _sr('PersistentMC', cfg_text=_cfg('Persistent_mc.cfg', Kinds='K_remote', DTypes='DT_list', DArgsSet='DA_one', DKwSet='DK_one', Ops='Ops_c05death', MaxSteps=4), name='mc-death', must_complete=True)
        ev.add_tlc('exhaustive, every interleaving: histories in which the child dies on its own (target raises) before further enqueue / call', rd)
        if rd.error or not rd.completed:
            raise MachineryError('Persistent.tla (death on its own) violates its own properties: %s' % rd.error)
        re_ = _sr('PersistentMC', cfg_text=_cfg('Persistent_mc.cfg', Kinds='K_remote', DTypes='DT_list', DArgsSet='DA_one', DKwSet='DK_one', Ops='Ops_c05death', MaxSteps=4, EnqChecksAlive='FALSE'), name='enqcached', must_complete=False)
        if re_.error != 'invariant:Inv_C05_Closed':
            raise MachineryError('enqueue testing the cached _dead flag is not rejected by the model checker: %s' % re_.error)
        wit['variant_EnqChecksAlive_FALSE'] = re_.error
        rw_ = _sr('PersistentMC', cfg_text=_cfg('Persistent_mc.cfg', Kinds='K_remote', DTypes='DT_list', DArgsSet='DA_one', DKwSet='DK_one', Ops='Ops_c05death', MaxSteps=4, inv=['W_NoEnqueueOnUnobservedDead']), name='W_NoEnqueueOnUnobservedDead', must_complete=False)
        if rw_.error != 'invariant:W_NoEnqueueOnUnobservedDead':
            raise MachineryError('witness W_NoEnqueueOnUnobservedDead not reachable: %s' % rw_.error)
        wit['W_NoEnqueueOnUnobservedDead'] = 'reached'
        ri = _sr('PersistentMC', cfg_text=_cfg('Persistent_mc.cfg', Kinds='K_remote', DTypes='DT_list', DArgsSet='DA_one', DKwSet='DK_one', Ops='Ops_c05iter', MaxSteps=4), name='mc-iter', must_complete=True)
        ev.add_tlc('exhaustive, every interleaving: histories with results_iter(maxitems=1) between other reads', ri)
        if ri.error or not ri.completed:
            raise MachineryError('Persistent.tla (bounded results_iter) violates its own properties: %s' % ri.error)
        rx = _sr('PersistentMC', cfg_text=_cfg('Persistent_mc.cfg', Kinds='K_remote', DTypes='DT_list', DArgsSet='DA_one', DKwSet='DK_one', Ops='Ops_c05iter', MaxSteps=4, IterExact='FALSE'), name='iterdrops', must_complete=False)
        if not (rx.error or '').startswith('invariant:Inv_C05_'):
            raise MachineryError('results_iter(maxitems) dropping a result is not rejected by the model checker: %s' % rx.error)
        wit['variant_IterExact_FALSE'] = rx.error
        rg = _sr('PersistentMC', cfg_text=_cfg('Persistent_mc.cfg', ClosedGuard='FALSE'), name='closedguard', must_complete=False)
        if rg.error != 'invariant:Inv_C05_Closed':
            raise MachineryError('enqueue on a closed, still running process worker raising OSError is not rejected by the model checker: %s' % rg.error)
        wit['variant_ClosedGuard_FALSE'] = rg.error
        for w in ('W_NoFullStream', 'W_NoLate', 'W_NoCleanCall', 'W_NoLongerArgs', 'W_NoBlockingReadAfterClose', 'W_NoEnqueueOnClosedRunning'):
            rw = _sr('PersistentMC', cfg_text=_cfg('Persistent_mc.cfg', inv=[w]), name=w, must_complete=False)
            if rw.error != 'invariant:' + w:
                raise MachineryError('witness %s not reachable (vacuous model): %s' % (w, rw.error))
            wit[w] = 'reached'
        rp = _sr('PersistentMC', 'Persistent_prefix.cfg', name='prefix', must_complete=False)
        if not (rp.error or '').startswith('invariant:Inv_C05'):
            raise MachineryError('the pre-fix merge (slice assignment on tuple defaults) is not rejected by the model checker: %s' % rp.error)
        wit['prefix_tuple_merge_model'] = rp.error
    else:
        big = dict(MaxSteps=7, MaxRestarts=3) if tier == 'thorough' else {}
        r = tlc.run('PersistentMC', cfg_text=_cfg('Persistent_c17.cfg', **big), coverage=(tier == 'thorough'), name='mc17', timeout=3000)
        ev.add_tlc('exhaustive, every interleaving: 3 kinds, histories with poison/stuck items, kill, terminate, close and up to 2 restarts (own / supplied pipe, with / without timeout and force)', r)
        if r.error:
            raise MachineryError('Persistent.tla violates its own C17 properties: %s\n%s' % (r.error, '\n'.join(r.trace[:80])))
        for w in ('W_NoRestartUnread', 'W_NoRestartRaised', 'W_NoRestartKilled', 'W_NoSecondRestart'):
            rw = _sr('PersistentMC', cfg_text=_cfg('Persistent_c17.cfg', inv=[w]), name=w, must_complete=False)
            if rw.error != 'invariant:' + w:
                raise MachineryError('witness %s not reachable (vacuous model): %s' % (w, rw.error))
            wit[w] = 'reached'
        rt_ = tlc.run('PersistentMC', cfg_text=_cfg('Persistent_c17.cfg', Ops='Ops_c17timed', MaxSteps=5 if tier == 'quick' else 6), name='mc17timed', timeout=3000)
        ev.add_tlc('exhaustive, every interleaving with time: restart(timeout=t) against a busy target / a frontend still rebuilding a result (wait(t), then terminate() with its own grace)', rt_)
        if rt_.error:
            raise MachineryError('Persistent.tla (timed restarts) violates its own C17 properties: %s\n%s' % (rt_.error, '\n'.join(rt_.trace[:80])))
        ro_ = _sr('PersistentMC', cfg_text=_cfg('Persistent_c17.cfg', OwnRunScn='TRUE', MaxSteps=5), name='mc-ownrun', must_complete=True)
        ev.add_tlc('exhaustive: the same for a worker that overrides run() (target=None, run=True)', ro_)
        if ro_.error or not ro_.completed:
            raise MachineryError('Persistent.tla (own run()) violates its own C17 properties: %s' % ro_.error)
        rk_ = _sr('PersistentMC', cfg_text=_cfg('Persistent_c17.cfg', inv=['Inv_C17_Live'], OwnRunScn='TRUE', RestartKeepsRun='FALSE'), name='forgetsrun', must_complete=False)
        if rk_.error != 'invariant:Inv_C17_Live':
            raise MachineryError('restart() forgetting run=True is not rejected by the model checker: %s' % rk_.error)
        wit['variant_RestartKeepsRun_FALSE'] = rk_.error
        rw = _sr('PersistentMC', cfg_text=_cfg('Persistent_c17.cfg', inv=['W_NoRestartWhileChildDiesByError']), name='W_NoRestartWhileChildDiesByError', must_complete=False)
        if rw.error != 'invariant:W_NoRestartWhileChildDiesByError':
            raise MachineryError('witness W_NoRestartWhileChildDiesByError not reachable: %s' % rw.error)
        wit['W_NoRestartWhileChildDiesByError'] = 'reached'
        for w in ('W_NoTimedRestartOfBusy', 'W_NoTimedRestartOfSlowFrontend', 'W_NoRestartOfLingering'):
            rw = _sr('PersistentMC', cfg_text=_cfg('Persistent_c17.cfg', inv=[w], Ops='Ops_c17timed'), name=w, must_complete=False)
            if rw.error != 'invariant:' + w:
                raise MachineryError('witness %s not reachable (vacuous model): %s' % (w, rw.error))
            wit[w] = 'reached'
        for const, inv, expect in (('WaitTruthful', 'Inv_C17_FreshStream', 'invariant:Inv_C17_FreshStream'),
                                   ('WaitTruthful', 'Inv_C17_RaisesNotAbandons', 'invariant:Inv_C17_RaisesNotAbandons'),
                                   ('TermOwnTimeout', 'Inv_C17_Live', 'invariant:Inv_C17_Live'),
                                   ('AliveAsksServer', 'Inv_C17_RaisesNotAbandons', 'invariant:Inv_C17_RaisesNotAbandons')):
            rv = _sr('PersistentMC', cfg_text=_cfg('Persistent_c17.cfg', inv=[inv], Ops='Ops_c17timed', **{const: 'FALSE'}),
                         name='wrong-%s-%s' % (const, inv), must_complete=False)
            if rv.error != expect:
                raise MachineryError('wrong variant %s=FALSE is not rejected by %s: %s' % (const, inv, rv.error))
            wit['variant_%s_FALSE_%s' % (const, inv)] = rv.error
        for const, expect in (('FreshPipe', 'invariant:'), ('ResetClosed', 'invariant:Inv_C17_Live'), ('CounterFirst', 'invariant:Inv_C17_CounterZero'),
                              ('WaitSwallowsBadResult', 'invariant:Inv_C17_Live')):
            rv = _sr('PersistentMC', cfg_text=_cfg('Persistent_c17.cfg', **{const: 'FALSE'}), name='wrong-' + const, must_complete=False)
            if not (rv.error or '').startswith(expect):
                raise MachineryError('wrong variant %s=FALSE is not rejected by the model checker: %s' % (const, rv.error))
            wit['variant_%s_FALSE' % const] = rv.error
    ev.cov['witnesses'] = wit


def dump_paths(ev, base, label, **kw):
    r = tlc.run('PersistentMC', cfg_text=_cfg(base, **kw), workers=1, name='paths-' + label, timeout=3000)
    ev.add_tlc('path dump %s (Hist=TRUE: one state per history prefix)' % label, r)
    if r.error:
        raise MachineryError('path dump %s failed: %s' % (label, r.error))
    seen, out = set(), []
    for kind, hs in r.tags.get('PATH', []):
        key = (kind, hs)
        if key in seen:
            continue
        seen.add(key)
        out.append((kind, _tla_seq(hs)))
    return out


# --------------------------------------------------------------------------- scenarios

SHAPES = [(0, ()), (0, (('a', 'xa'),)), (1, ()), (1, (('c', 'xc'),)), (2, (('a', 'xa'), ('c', 'xc'))), (2, ()),
          (3, ()), (3, (('b', 'xb'),)), (4, ()), (4, (('a', 'xa'),))]
DEFAULTS = [(), ('d1',), ('d1', 'd2'), ('d1', 'd2', 'd3')]
DKWS = [(), (('a', 'da'),), (('a', 'da'), ('b', 'db'))]


def decorate(rng, kind, hist, jid, c17=False, dtype=None, mode='settle'):
    """Choose the data of a history: defaults, what each enqueue passes, target kind, pipe."""
    ops = [s[0] for s in hist]
    dargs = list(rng.choice(DEFAULTS))
    if dtype is None:
        dtype = rng.choice(['list', 'list', 'tuple'])
    items = []
    ord_ = 0
    for n, op in enumerate(ops):
        if op not in ('enq', 'call'):
            continue
        ord_ += 1
        na, kw = rng.choice(SHAPES)
        if c17:
            na = max(na, 1)
        a = (['x%d' % ord_] + ['y2', 'y3', 'y4'])[:na]
        r = rng.random()
        if na and not c17 and r < 0.22:
            nxt = ops[n + 1] if n + 1 < len(ops) else ''
            a[0] = rng.choice(['@none', '@zero', '@empty'] + (['@big'] if op == 'call' or nxt == 'nextb' else []))
        items.append({'a': a, 'kw': [list(p) for p in kw]})
    pipe = rng.choice(['own', 'own', 'given'])
    if needs_count(hist):
        pipe = 'own'        # thread / remote: the own results pipe is a queue, whose length can be observed
    return {'id': jid, 'kind': kind, 'hist': hist, 'dtype': dtype, 'dargs': dargs,
            'dkw': [list(p) for p in rng.choice(DKWS)], 'mut': (not c17) and rng.random() < 0.3,
            'pipe': pipe, 'items': items, 'mode': mode}


def needs_count(hist):
    """A kill / terminate issued while two or more results are unread: the settled behaviour assumes that all of
    them have been produced, which the driver can only establish on an endpoint whose length is observable."""
    return any(s[0] in ('term', 'kill') and len(s) > 4 and s[4] >= 2 for s in hist)


def signature(prop, rec, clauses):
    scn = rec['scn']
    last = rec['obs']['incs'][-1]
    return '%s|kind=%s|dtype=%s|dargs=%s|died=%s|clauses=%s' % (
        prop, scn['kind'], scn['dtype'], 'nonempty' if scn['dargs'] else 'empty', last.get('error', 'na'),
        '+'.join(sorted(clauses)))


# --------------------------------------------------------------------------- the check

def run(prop, tier, replay=None):
    assert prop in CHECKS
    T = Timer()
    ev = Evidence(prop, tier)
    rng = random.Random(seed() * 1000003 + (5 if prop == 'C05' else 17))
    quick = tier == 'quick'

    if replay is not None:
        job = replay['replay']
        res = run_jobs([job], 1, 'replay', 120)[0]
        if res['rec'] is None:
            raise MachineryError('replay could not construct the worker: %s' % res['notes'])
        fails, _ = tlc.judge('PersistentJudge', [res['rec']], name='replay')
        print('replayed:', json.dumps({'ops': [s[0] for s in job['hist']], 'outs': res['outs'], 'notes': res['notes']}))
        print(json.dumps(res['rec']['obs']))
        mine = [c for _, c in fails if c.startswith(prop)]
        for c in mine:
            print('VIOLATION property=%s replay=(given) clause=%s' % (prop, c))
        return 1 if mine else 0

    model_check(ev, prop, tier)
    ev.cov['phase_s'] = {'model_checking': T.s()}

    # ---- spec -> code: TLC-dumped histories
    jobs, expect = [], {}

    def add(kind, hist, **kw):
        j = decorate(rng, kind, hist, 'j%d' % len(jobs), c17=(prop == 'C17'), **kw)
        jobs.append(j)
        expect[j['id']] = [s[1] for s in hist]
        return j
    allowed = None
    if prop == 'C05':
        paths = dump_paths(ev, 'Persistent_paths.cfg', 'C05 settled', MaxSteps=5 if quick else 6)
        paths = [h for _, h in paths]
        longp = dump_sim(ev, 'Persistent_paths.cfg', 300 if quick else 3000, MaxSteps=8, MaxEnq=5)
        n_exh = len(paths)
        for h in paths + longp:
            add('thread', h)
        nsample = 150 if quick else 1500
        pool = [h for h in paths if len(h) >= 3] + longp
        for kind in ('process', 'remote'):
            for h in rng.sample(pool, min(nsample, len(pool))):
                add(kind, h)
        # the tuple / list default shapes on every kind, deterministically present in every run
        for kind in KINDS:
            for h in [x for x in paths if [s[0] for s in x] in (['enq', 'nextb'], ['call'], ['enq', 'enq', 'wait'])]:
                for dt in ('tuple', 'list'):
                    j = add(kind, h, dtype=dt)
                    j['dargs'] = ['d1', 'd2']
        # un-settled replays against the outcome sets TLC allows under every interleaving
        allowed = {}
        for kind, h in dump_paths(ev, 'Persistent_paths.cfg', 'C05 every interleaving (allowed outcome sets, incl. calls that can hang)',
                                  MaxSteps=4 if quick else 5, Settle='FALSE', AllowBlock='TRUE'):
            allowed.setdefault(tuple(s[0] for s in h), set()).add(tuple(s[1] for s in h))
        # a call sequence is replayed un-settled only if no interleaving of any of its prefixes blocks for ever
        canhang = set(k for k, v in allowed.items() if any('hang' in o for o in v))
        eager = sorted(k for k in allowed if len(k) >= 2 and not any(k[:i] in canhang for i in range(1, len(k) + 1)))
        ev.cov['eager_call_sequences'] = {'total': len(allowed), 'can_hang_excluded': len(allowed) - len(eager)}
        for ops_ in rng.sample(eager, min(len(eager), 300 if quick else 1500)):
            add(rng.choice(['thread', 'thread', 'process', 'remote']) if not quick or rng.random() < 0.25 else 'thread',
                [[o, '?', 'F', 'idle', 0] for o in ops_], mode='eager')
        # forced: blocking reads issued right after close() / a timed-out wait() while a slow target still owes results
        # (un-settled; the model step is NextEnd with closed = TRUE: it returns the next value, never the end)
        nforced = 0
        for kind in KINDS:
            for ops_ in (['enq', 'close', 'nextb'], ['enq', 'enq', 'close', 'nextb', 'nextb', 'nextb'],
                         ['enq', 'enq', 'close', 'iter'], ['enq', 'waitS', 'nextb', 'nextb'], ['enq', 'enq', 'waitS', 'iter'],
                         # enqueue()/call() on a closed worker whose child is still busy: WorkerClosedError, nothing else
                         ['enq', 'close', 'enq'], ['enq', 'close', 'call'], ['enq', 'waitS', 'enq'], ['enq', 'waitS', 'call'],
                         ['enq', 'enq', 'close', 'enq', 'call']):
                for _ in range(1 if quick else 4):
                    j = add(kind, [[o, '?', 'F', 'idle', 0] for o in ops_], mode='eager')
                    j['slow'], j['mut'], j['forced'] = True, False, True
                    for it in j['items']:
                        if it['a'] and it['a'][0].startswith('@'):
                            it['a'][0] = 'x'
                    nforced += 1
        ev.cov['forced_blocking_reads_after_close'] = nforced
        # the worker dies on its own (the target raises); the harness waits for the OS to show the child gone - without
        # touching the worker's API - and then enqueues: WorkerClosedError, on every kind (histories from TLC)
        dp = [(k_, h) for k_, h in dump_paths(ev, 'Persistent_paths.cfg', 'C05 death on its own, then enqueue / call', Kinds='K_all',
                                             Ops='Ops_c05death', MaxSteps=3 if quick else 4)
              if any(s[0] == 'enq@raise' for s in h) and any(s[0] in ('enq', 'call') and s[3] == 'dead' for s in h)]
        for k_, h in dp:
            add(k_, h)['mut'] = False
        ev.cov['death_then_enqueue_replays'] = len(dp)
        # bounded results_iter(maxitems=1) followed by further reads (histories from TLC)
        ip = [(k_, h) for k_, h in dump_paths(ev, 'Persistent_paths.cfg', 'C05 results_iter(maxitems=1) between other reads', Kinds='K_all',
                                             Ops='Ops_c05iter', MaxSteps=4 if quick else 5)
              if any(s[0] == 'iter1' for s in h)]
        ith = [h for k_, h in ip if k_ == 'thread']
        for h in (ith if len(ith) <= 600 else rng.sample(ith, 600)):
            add('thread', h)
        for kind in ('process', 'remote'):
            cand = [h for k_, h in ip if k_ == kind and sum(1 for s in h if s[0] == 'enq') >= 2]
            for h in rng.sample(cand, min(len(cand), 16 if quick else 200)):
                add(kind, h)
        ev.cov['bounded_results_iter_replays'] = sum(1 for j in jobs if any(s[0] == 'iter1' for s in j['hist']))
    else:
        n_exh = 0
        allp = dump_paths(ev, 'Persistent_c17paths.cfg', 'C17 settled, 3 kinds', Kinds='K_all',
                          MaxSteps=5 if quick else 6, MaxRestarts=2 if quick else 3)
        allt = dump_paths(ev, 'Persistent_c17paths.cfg', 'C17 timed restarts, 3 kinds', Kinds='K_all',
                          Ops='Ops_c17timed', MaxSteps=4 if quick else 5)
        for kset, kinds in (('K_thread', ['thread']), ('K_proc', ['process']), ('K_remote', ['remote'])):
            paths = [h for k_, h in allp if k_ == kinds[0]]
            paths = [h for h in paths if any(s[0].startswith('restart') for s in h)]
            n_exh += len(paths)
            if kinds[0] == 'thread':
                sel = paths if len(paths) <= (1000 if quick else 20000) else rng.sample(paths, 1000 if quick else 20000)
            else:
                if kinds[0] == 'process':
                    paths = [h for h in paths if not needs_count(h)]     # a process worker's results pipe cannot be counted
                sel = rng.sample(paths, min(len(paths), 140 if quick else 1500))
            for h in sel:
                add(kinds[0], h)
            # restart(timeout=t) against time: a busy target (blocking step longer than t, shorter than terminate's own
            # grace) and, for the remote kind, a frontend that is still rebuilding a result when wait(t) gives up
            tp = [h for k_, h in allt if k_ == kinds[0]]
            tp = [h for h in tp if any(s[0] in ('restartK', 'restartKP') for s in h)]
            n_exh += len(tp)
            ntimed = {'thread': 12, 'process': 8, 'remote': 16}[kinds[0]] * (1 if quick else 8)
            tsel = rng.sample(tp, min(len(tp), ntimed))
            for must in (['enq@busy', 'restartK'], ['enq@busy', 'restartKP'], ['enq@slow', 'restartK'], ['enq@slow', 'restartKP'],
                         ['enq@linger', 'close', 'restartK'], ['enq@linger', 'close', 'restartKP'], ['enq@linger', 'close', 'restartK', 'enq']):
                tsel += [h for h in tp if [s[0] for s in h] == must and h not in tsel]      # the bare situations, always
            for h in tsel:
                add(kinds[0], h)['timed'] = True
    only = os.environ.get('VERIF_PAPI_KINDS')          # debugging aid: restrict the replays to some kinds
    if only:
        jobs = [j for j in jobs if j['kind'] in only.split(',')]
    if prop == 'C17':
        # workers that override run() (target=None, run=True): a fifth of the restart histories, and the bare ones always
        plain = [j for j in jobs if j['mode'] == 'settle' and not j.get('timed')
                 and all(s[0] in ('enq', 'nextnb', 'close', 'restart', 'restartP', 'kill', 'term') for s in j['hist'])]
        for j in rng.sample(plain, len(plain) // 5):
            j['ownrun'], j['mut'] = True, False
        # a target that damages every mutable argument it is given: the next incarnation must start from the ORIGINAL defaults
        # (thread kind: restart() re-uses the very objects the constructor was given); plain histories without kills only
        calm = [j for j in plain if not j.get('ownrun') and all(s[0] in ('enq', 'nextnb', 'close', 'restart', 'restartP') for s in j['hist'])
                and any(s[0] == 'enq' for s in j['hist'])]
        for j in rng.sample(calm, min(len(calm), max(12, len(calm) // 6))):
            j['mut'] = True
        ev.cov['restart_replays_with_argument_damaging_target'] = sum(1 for j in jobs if j.get('mut'))
        for kind in KINDS:
            for ops_ in (['restart'], ['enq', 'restart', 'enq'], ['restartP', 'enq', 'restart', 'enq']):
                j = add(kind, [[o, '?', 'F', 'idle', 0] for o in ops_], mode='eager')
                j['ownrun'], j['timed'] = True, True
        ev.cov['own_run_replays'] = sum(1 for j in jobs if j.get('ownrun'))
        # restart() of a live, busy worker whose child dies meanwhile by an exception pickle cannot rebuild (un-settled,
        # slow target: restart is blocked in wait() when the child reaches the bad input); judged by TLC only
        for kind in KINDS:
            for ops_ in (['enq', 'enq@bad', 'restart', 'enq', 'nextb'], ['enq', 'enq@bad', 'enq', 'restartP', 'enq', 'nextb'],
                         ['enq', 'enq@bad', 'restart', 'enq', 'enq@bad', 'restartP', 'enq', 'nextb']):
                for _ in range(1 if quick else 3):
                    j = add(kind, [[o, '?', 'F', 'idle', 0] for o in ops_], mode='eager')
                    j['slow'], j['timed'] = True, True
    nproc = 14
    tl = 70 if quick else 1500
    # slow kinds first in each chunk order: interleave so every runner gets a similar load
    jobs_sorted = sorted(jobs, key=lambda j: (not j.get('timed'), j['kind'] == 'thread', j['id']))
    ev.cov['phase_s']['path_dumps'] = T.s()
    results = run_jobs(jobs_sorted, nproc, prop, tl)
    ev.cov['phase_s']['replays'] = T.s()
    byid = {r['id']: r for r in results}
    missing = [j['id'] for j in jobs if j['id'] not in byid]

    records, meta, drift, nconf, mism = [], {}, [], 0, 0
    violations = []
    for j in jobs:
        r = byid.get(j['id'])
        if r is None:
            continue
        if r['rec'] is None:
            raise MachineryError('replay %s could not construct its worker: %s' % (j['id'], r['notes']))
        records.append(r['rec'])
        meta[j['id']] = (j, r)
    fails, rj = tlc.judge('PersistentJudge', records, name='judge', timeout=1500)
    ev.add_tlc('judge: %s operators on %d real executions' % (prop, len(records)), rj, role='judge')
    failing = {}
    for rid, clause in fails:
        if clause.startswith(prop):
            failing.setdefault(rid, []).append(clause)
    for rid, clauses in failing.items():
        j, r = meta[rid]
        sig = signature(prop, r['rec'], clauses)
        ops_ = [s[0] for s in j['hist']]
        violations.append(Violation(prop, sig, '%s fails on %s worker, defaults %s%s kwargs %s, history %s: outcomes %s%s'
                                    % (','.join(sorted(clauses)), j['kind'], j['dtype'], j['dargs'], j['dkw'], ops_, r['outs'],
                                       (' notes %s' % r['notes'][:2]) if r['notes'] else ''), j))
    if not violations and len(missing) > len(jobs) // 2:
        raise MachineryError('%d of %d replays did not run (runner time limit) and the ones that ran show no violation' % (len(missing), len(jobs)))
    # conformance: step outcomes vs the TLC behaviour (settled) / the allowed set (eager).
    # Runs inside the scope of the listed tuple-defaults finding follow the pre-fix algorithm, not the spec:
    # they are counted, not reported as drift (the finding itself is reported by ./check C05).
    from vf.report import load_known
    tuple_listed = any(k['property'] == 'C05' and 'dtype=tuple|dargs=nonempty' in k['signature'] for k in load_known())
    explained = 0
    deviations = []
    anyfail = set(rid for rid, _ in fails)
    for rid, (j, r) in meta.items():
        if rid in anyfail:
            continue
        if tuple_listed and j['dtype'] == 'tuple' and j['dargs'] and any(s[0].startswith('enq') or s[0] == 'call' for s in j['hist']):
            explained += 1
            continue
        exp = expect[rid]
        nconf += 1
        if j['mode'] == 'eager':
            key = tuple(s[0] for s in j['hist'])
            if key not in (allowed or {}):          # forced scenarios with operations outside the dumped alphabet: judged only
                nconf -= 1
                continue
            ok = tuple(r['outs']) in allowed[key]
        else:
            ok = r['outs'] == exp and r['finished']
        hard = [n for n in r['notes'] if n.startswith('hang') or n.startswith('aborted')]
        if not ok or hard:
            mism += 1
            if len(deviations) < 80:
                deviations.append({'kind': j['kind'], 'pipe': j['pipe'], 'ops': [s[0] for s in j['hist']], 'outs': r['outs'], 'notes': r['notes'], 'id': rid})
            if len(drift) < 4:
                drift.append('%s worker deviates from the TLC behaviour: history %s spec outcomes %s real outcomes %s notes %s'
                             % (j['kind'], [s[0] for s in j['hist']], exp if j['mode'] != 'eager' else '(allowed set)', r['outs'], r['notes'][:2]))
    if mism:
        drift.append('%d of %d conforming-checked replays deviate' % (mism, nconf))

    per_kind = {k: sum(1 for j in jobs if j['kind'] == k and j['id'] in byid) for k in KINDS}
    ev.cov['traces_validated_against_impl'] = nconf - mism
    ev.cov['evaluations'] = len(records)
    ev.cov['distinct_nontrivial'] = len(set((j['kind'], j['dtype'], tuple(j['dargs']), json.dumps(j['dkw']), json.dumps(j['hist']), json.dumps(j['items']), j['mut'], j['pipe'], j['mode'])
                                            for j, _ in meta.values() if len(j['hist']) >= 2))
    ev.cov['rule'] = ('each case = (kind, default args/kwargs and container type, API history dumped by TLC from Persistent.tla, data of each enqueue, '
                      'mutating target, own/supplied pipe, settled/eager); %d histories enumerated exhaustively by TLC%s; non-trivial = at least 2 API calls'
                      % (n_exh, ', longer ones by TLC simulation, process/remote kinds by seeded sampling' if prop == 'C05' else ', thread kind all (or a seeded sample when more than the cap), process/remote seeded samples'))
    ev.cov['exhaustive'] = False
    ev.cov['replays_per_kind'] = per_kind
    ev.cov['timed_restart_replays'] = sum(1 for j in jobs if j.get('timed') and j['id'] in byid)
    ev.cov['replays_not_run'] = len(missing)
    ev.cov['replay_mismatches'] = mism
    ev.cov['deviations'] = deviations
    ev.cov['replays_in_scope_of_listed_tuple_finding_not_conformance_checked'] = explained
    for j, r in list(meta.values())[:1] + [m for m in meta.values() if m[0]['kind'] != 'thread'][:2] + [m for m in meta.values() if len(m[0]['hist']) >= 6][:1]:
        ev.sample({'kind': j['kind'], 'defaults': [j['dtype'], j['dargs'], j['dkw']], 'history': [s[0] for s in j['hist']], 'items': j['items'], 'outcomes': r['outs']})
    ev.assumptions += ['the caller is one thread; the child is quiescent when a settled call is issued (established by hang-bounded waits on the results endpoint / OS liveness)',
                       'values are abstracted to (args, kwargs) echoes and the classes None / 0 / empty string / 70 KB bytes',
                       'process and remote kinds are sampled; the remote server is a local RemoteServerProcess']
    return finish(ev, violations, T.s(), drift)


def dump_sim(ev, base, num, **kw):
    """Longer histories by TLC simulation (seeded)."""
    cfg = _cfg(base, **kw).replace('SPECIFICATION Spec', 'INIT Init\nNEXT Next')
    r = tlc.run('PersistentMC', cfg_text=cfg, workers=1, simulate='num=%d' % num, depth=60, seed=seed(), name='sim',
                must_complete=False, timeout=1200)
    ev.add_tlc('simulation: histories of up to %s calls' % kw.get('MaxSteps'), r)
    if r.error:
        raise MachineryError('simulation failed: %s\n%s' % (r.error, r.stdout[-1500:]))
    seen, out = set(), []
    for kind, hs in r.tags.get('PATH', []):
        if hs not in seen:
            seen.add(hs)
            h = _tla_seq(hs)
            if len(h) >= 6:
                out.append(h)
    return out


if __name__ == '__main__':
    if len(sys.argv) == 4 and sys.argv[1] == '--runner':
        rc = runner_main(sys.argv[2], sys.argv[3])
        sys.stdout.flush()
        os._exit(rc)
    print('usage: python -m vf.drivers.persistent_api --runner jobs.json out.json')
