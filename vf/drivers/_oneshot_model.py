"""TLC runs of spec/OneShot.tla for the life-cycle checks: exhaustive over every landing / kill label
for each (kind, persistent, ending); the pre-fix model (Fixed = FALSE) must be rejected; witnesses
must be reachable; the ALLOWED relation (label -> outcomes) is dumped for the conformance step."""
import os
import re
from concurrent.futures import ThreadPoolExecutor

from .. import tlc
from ..common import MachineryError

INVS = {
    'C01': ['Inv_C01_Definite', 'Inv_C01_Shape', 'Inv_C01_Undisturbed'],
    'C03': ['Inv_C03_Reported', 'Inv_C03_NothingElse_KF', 'Inv_C03_BeforeStart'],
    'C06': ['Inv_C06_Prefix', 'Inv_C06_Ends', 'Inv_C06_All'],
    'C16': ['Inv_C16_Synced', 'Inv_C16_Initial'],
}


def cfg(invs, live=True, **kw):
    s = open(os.path.join(tlc.SPEC, 'OneShot_mc.cfg')).read()
    for a, b in kw.items():
        s = re.sub(r'(?m)^(\s*%s\s*(=|<-)\s*).*$' % a, lambda m: m.group(1) + b, s)
    s = re.sub(r'(?m)^INVARIANT.*\n', '', s)
    if not live:
        s = s.replace('PROPERTY Live_Dies\n', '')
    return s.replace('CHECK_DEADLOCK FALSE', ''.join('INVARIANT %s\n' % i for i in invs) + 'CHECK_DEADLOCK FALSE')


def combos(prop):
    out = []
    for kind in ('thread', 'process', 'remote'):
        for pers in (False, True):
            if prop == 'C06' and not pers:
                continue
            for ending in ('ret', 'exc', 'bexc', 'unreb', 'big'):
                if pers and ending in ('bexc', 'unreb', 'big'):
                    continue
                if ending == 'big' and kind != 'process':
                    continue
                if prop in ('C03', 'C16') and ending not in ('ret', 'exc'):
                    continue
                items = 0 if not pers else (3 if ending == 'exc' else 2)
                for mk in ((0,) if kind == 'thread' or prop in ('C03', 'C16') else (0, 1)):
                    out.append(dict(Kind='"%s"' % kind, Persistent='TRUE' if pers else 'FALSE', Ending='"%s"' % ending,
                                    Items=str(items), MaxKill=str(mk), MaxTerm='0' if mk else '1'))
    return out


def run(prop, tier, ev):
    invs = INVS[prop] + ['AllowedDump']
    allowed = {}

    def one(kw):
        return kw, tlc.run('OneShot', cfg_text=cfg(invs, **kw), workers=2, must_complete=False, name='os')
    with ThreadPoolExecutor(8) as ex:
        results = list(ex.map(one, combos(prop)))
    for kw, r in results:
        label = 'OneShot %s%s ending=%s kill=%s' % (kw['Kind'].strip('"'), ' persistent' if kw['Persistent'] == 'TRUE' else '', kw['Ending'].strip('"'), kw['MaxKill'])
        ev.add_tlc(label, r)
        if r.error:
            raise MachineryError('OneShot.tla (%s) violates %s - the model and the code disagree, or the model is wrong\n%s'
                                 % (label, r.error, '\n'.join(r.trace[-25:])))
        for kind, pers, ending, fault, at, seen, us, send in r.tags.get('ALLOWED', []):
            allowed.setdefault((kind, pers, ending, fault, at), set()).add((seen, us, send))
    ev.cov['model_allowed_pairs'] = sum(len(v) for v in allowed.values())
    # vacuity: landings in handlers and in finally blocks are reachable; WTE outcomes are reachable
    wit = {}
    for w, kw in (('W_NeverLandsInHandler', dict(Kind='"process"', Ending='"exc"')),
                  ('W_NeverLandsInFinally', dict(Kind='"remote"', Ending='"ret"')),
                  ('W_NeverWTE', dict(Kind='"thread"', Ending='"ret"'))):
        r = tlc.run('OneShot', cfg_text=cfg([w], live=False, **kw), workers=2, must_complete=False, name='w')
        if r.error != 'invariant:' + w:
            raise MachineryError('witness %s is not reachable in OneShot.tla (vacuous model): %s' % (w, r.error))
        wit[w] = 'reached'
    # the known finding F03 is a property of the design: OwnOutcome must be violated in the model
    if prop == 'C03':
        r = tlc.run('OneShot', cfg_text=cfg(['Inv_C03_OwnOutcome'], live=False, Kind='"process"', Ending='"ret"'), workers=2, must_complete=False, name='f03')
        wit['F03_in_model'] = r.error or 'not reproduced by the model'
    # the code before the fixes must be rejected by TLC
    if prop == 'C01':
        for kw in (dict(Kind='"thread"', Ending='"exc"'), dict(Kind='"process"', Ending='"unreb"'),
                   dict(Kind='"process"', Ending='"big"', MaxKill='1', MaxTerm='0'), dict(Kind='"remote"', Ending='"bexc"')):
            r = tlc.run('OneShot', cfg_text=cfg(INVS['C01'], live=False, Fixed='FALSE', **kw), workers=2, must_complete=False, name='prefix')
            if not (r.error or '').startswith('invariant:'):
                raise MachineryError('the pre-fix model %s is not rejected by TLC (%s)' % (kw, r.error))
            wit['prefix %s %s' % (kw['Kind'].strip('"'), kw['Ending'].strip('"'))] = r.error
    if prop == 'C06':
        for kw in (dict(Kind='"thread"', Persistent='TRUE', Items='2'), dict(Kind='"remote"', Persistent='TRUE', Items='2')):
            r = tlc.run('OneShot', cfg_text=cfg(['Inv_C06_Ends'], live=False, Fixed='FALSE', **kw), workers=2, must_complete=False, name='prefix')
            if r.error != 'invariant:Inv_C06_Ends':
                raise MachineryError('the pre-fix model %s is not rejected by TLC for C06_Ends (%s)' % (kw, r.error))
            wit['prefix %s persistent: stream never ends' % kw['Kind'].strip('"')] = r.error
    ev.cov['witnesses'] = wit
    return allowed
