-------------------------- MODULE RemotePickleJudge --------------------------
(* TLC as the judge of real executions: evaluates the C13/C14/C15 operators of            *)
(* RemotePickleProps.tla on (scn, obs) records projected from runs of the real            *)
(* pyworkers.remote_pickle (vf/drivers/rpickle.py).  For every rejected record it prints   *)
(* the failing clause and Sig, the canonical abstraction of the scenario that              *)
(* known_findings.d/rpickle.json refers to.                                               *)
EXTENDS RemotePickleProps, Json, IOUtils, TLC
Recs == JsonDeserialize(IOEnv.REC_FILE)
Which == IOEnv.RP_PROP                       \* "C13" | "C14" | "C15"
VARIABLE i
JInit == i \in 1..Len(Recs)
JNext == UNCHANGED i

TF(b) == IF b THEN "T" ELSE "F"
RECURSIVE Cat(_)
Cat(s) == IF s = <<>> THEN "" ELSE s[1] \o Cat(Tail(s))
Abbrev(f) == CASE f = "none" -> "n" [] f = "gs" -> "g" [] f = "gsr" -> "r" [] f = "gskw" -> "k" [] OTHER -> "x"
MaxSib(scn) == IF K_Siblings(scn) THEN "2+"
               ELSE IF \E a \in OptNodes(scn) : scn.g[a].ds /\ NamedKids(scn, a) # {} THEN "1" ELSE "0"
AnyInjected(scn) == \E k \in 1..Len(scn.loads) : scn.loads[k].fail # "none"
Sig(r) ==
  CASE r.scn.t = "cls" ->
         "cls|chain=" \o Cat([j \in 1..Len(r.scn.chain) |-> Abbrev(r.scn.chain[j])]) \o "|marker=" \o TF(r.scn.marker)
         \o "|seen=" \o TF(r.scn.seen) \o "|op=" \o r.scn.op \o "|remote=" \o TF(r.scn.remote)
    [] r.scn.t = "leaf" ->
         "leaf|kind=" \o r.scn.kind \o "|item=" \o r.scn.item \o "|remote=" \o TF(r.scn.remote) \o "|after=" \o r.scn.after \o "|proto=" \o r.scn.pclass
    [] OTHER ->
         "graph|op=" \o r.scn.op \o "|remote=" \o TF(r.scn.remote) \o "|top=" \o r.scn.g[1].kind
         \o "|marker=" \o TF(r.scn.marker) \o "|seen=" \o TF(r.scn.seen)
         \o "|noss=" \o TF(K_NoSetstate(r.scn))
         \o "|nods=" \o TF(\E c \in OptNodes(r.scn) : ~r.scn.g[c].ds)
         \o "|sib=" \o MaxSib(r.scn) \o "|free=" \o TF(K_Free(r.scn)) \o "|stale=" \o TF(K_Stale(r.scn))
         \o "|patched=" \o TF(AnyPatch(r.scn)) \o "|injected=" \o TF(AnyInjected(r.scn)) \o "|par=" \o TF(r.scn.par) \o "|deep=" \o TF(K_DeepPatch(r.scn)) \o "|kwonly=" \o TF(K_KwOnly(r.scn))

Chk(name, ok) == ok \/ PrintT(<<"FAIL", Recs[i].id, name, Sig(Recs[i])>>)
JInv == CASE Which = "C13" ->
               /\ Chk("C13_NonOptInEqualsPickle", C13_NonOptInEqualsPickle(Recs[i]))
               /\ Chk("C13_RemoteFalseIsStd", C13_RemoteFalseIsStd(Recs[i]))
               /\ Chk("C13_StdKeepsPlainGetstate", C13_StdKeepsPlainGetstate(Recs[i]))
               /\ Chk("C13_InconsistentRejected", C13_InconsistentRejected(Recs[i]))
          [] Which = "C14" ->
               /\ Chk("C14_Once", C14_Once(Recs[i]))
               /\ Chk("C14_LoadsSucceeds", C14_LoadsSucceeds(Recs[i]))
               /\ Chk("C14_Shape", C14_Shape(Recs[i]))
               /\ Chk("C14_ViaSetstate", C14_ViaSetstate(Recs[i]))
          [] OTHER ->
               /\ Chk("C15_Delivery", C15_Delivery(Recs[i]))
               /\ Chk("C15_OnlyAddressed", C15_OnlyAddressed(Recs[i]))
               /\ Chk("C15_Independent", C15_Independent(Recs[i]))
               /\ Chk("C15_NoResidue", C15_NoResidue(Recs[i]))
=============================================================================
