---------------------------- MODULE RegistryJudge ----------------------------
(* TLC as the judge of real executions: the C19 operators on records projected from          *)
(* histories replayed on real workers and the real Worker.active_children().                 *)
EXTENDS RegistryProps, Json, IOUtils, TLC
Recs == JsonDeserialize(IOEnv.REC_FILE)
VARIABLE i
JInit == i \in 1..Len(Recs)
JNext == UNCHANGED i
Chk(name, ok) == ok \/ PrintT(<<"FAIL", Recs[i].id, name>>)
JInv == /\ Chk("C19_Exact", C19_Exact(Recs[i]))
        /\ Chk("C19_Bounded", C19_Bounded(Recs[i]))
        /\ Chk("C19_Autoclose", C19_Autoclose(Recs[i]))
=============================================================================
