---------------------------- MODULE TransferProps ----------------------------
(* C02 as operators over r = [scn |-> .., obs |-> ..]; obs.kinds[k] is what worker kind k   *)
(* showed for the same deterministic target/arguments, compared (by the harness, field by     *)
(* field) with a direct call - the oracle the property names.                                 *)
(*  scn.runs     "T" iff the worker is expected to run (run flag / target defaulting)         *)
(*  scn.direct   "ret" | "exc"  : what the direct call did                                    *)
(*  obs.kinds[k] = [done |-> "T"|"hung"|"ctor_raised", has_error |-> "T"|"F"|"None"|"raised", *)
(*                  result_eq |-> "T"|"F" (result == direct value, same type),                *)
(*                  result_none |-> "T"|"F", error_type_eq, error_args_eq |-> "T"|"F"|"na"]   *)
EXTENDS Naturals, Sequences
Kinds(r) == DOMAIN r.obs.kinds
Good(r, d) ==
   /\ d.done = "T"
   /\ IF r.scn.runs = "F" THEN d.has_error = "F" /\ d.result_none = "T" /\ d.error_none = "T"
      ELSE IF r.scn.direct = "ret" THEN d.has_error = "F" /\ d.result_eq = "T" /\ d.error_none = "T"
      ELSE d.has_error = "T" /\ d.result_none = "T" /\ d.error_type_eq = "T" /\ d.error_args_eq = "T"
C02_Equal(r) == \A k \in Kinds(r) : Good(r, r.obs.kinds[k])
C02_NeverHangs(r) == \A k \in Kinds(r) : r.obs.kinds[k].done # "hung"
C02_KindsAgree(r) == \A a, b \in Kinds(r) :
                        /\ r.obs.kinds[a].has_error = r.obs.kinds[b].has_error
                        /\ r.obs.kinds[a].result_eq = r.obs.kinds[b].result_eq
                        /\ r.obs.kinds[a].error_type_eq = r.obs.kinds[b].error_type_eq
==============================================================================
