#!/usr/bin/env python3
"""compare a junit xml of the repo's test-suite with /root/.vp/BASELINE.json stable_pass"""
import json, sys, xml.etree.ElementTree as ET
b = json.load(open('/root/.vp/BASELINE.json'))
stable = set(b['stable_pass'])
res = {}
for tc in ET.parse(sys.argv[1]).getroot().iter('testcase'):
    name = '%s::%s' % (tc.get('classname'), tc.get('name'))
    bad = any(ch.tag in ('failure', 'error', 'skipped') for ch in tc)
    res[name] = 'fail' if bad else 'pass'
missing = sorted(s for s in stable if res.get(s) != 'pass')
print('stable_pass: %d, passing now: %d' % (len(stable), len(stable) - len(missing)))
for m in missing:
    print('  NOT PASSING:', m, res.get(m, 'absent'))
sys.exit(1 if missing else 0)
