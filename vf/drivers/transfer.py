"""C02 - all worker kinds compute exactly what a direct call would.

spec/Transfer.tla models how an outcome travels from the child to the caller of wait() for each
kind (shared memory / bounded pipe with the parent joining first / socket drained by a frontend
thread) and the run/target defaulting of the constructor; TLC checks Equal and that wait()
returns (liveness).  The real side runs concretised scenarios (values of every class, sizes
across the pipe buffer, exception classes/args, argument shapes, factory, run flag, main-script
definitions) in the three kinds, compares field by field with the direct call (the oracle the
property names) and lets TLC judge the records (TransferJudge); each real outcome is also
compared with what the model allows for its abstract scenario (conformance)."""
import json
import os
import subprocess
import sys

from .. import tlc
from ..common import MachineryError, PY, REPO, Timer, VERIF, seed, sub_scratch
from ..report import Evidence, Violation, finish

CHECKS = {
    'C02': dict(engine='Transfer', technique='TLA+ spec Transfer.tla (result transfer protocol per kind with a bounded pipe, constructor run/target defaulting) model-checked with TLC incl. liveness of wait(); concretised scenarios executed in thread/process/remote workers vs. a direct call; TLC judge (TransferJudge) + model/real conformance per abstract scenario',
                text='TLC decides the protocol part for every (kind, run flag, target present, ending, result size class): the outcome observed after wait() equals the direct outcome and wait() returns. Value fidelity is decided by executing ~130 (quick) concrete scenarios per run in all three kinds against a direct call in a script run as __main__ (module- and main-defined classes), judged by TLC.',
                note='Trusted: TLC; == and type identity as the comparison with the direct call (the oracle the property names); value fidelity for all picklable values is an encode/decode question this technique only samples (DESIGN 6/C02, 10).',
                design_ref='6/C02'),
}

RUNNER = os.path.join(os.path.dirname(os.path.abspath(__file__)), '_c02_runner.py')
# the current code: does ProcessWorker.wait() receive the result while waiting?  (FALSE = before the fix of F02)
DRAIN_IN_WAIT = 'TRUE'


def scenarios(tier):
    S = []

    def add(target, where, args=(), kwargs=None, kinds=('thread', 'process', 'remote'), factory='ctor', run='none', target_none=False, vclass='small',
            waitmode='once'):
        S.append({'id': 's%d' % len(S), 'target': target, 'where': where, 'args': list(args), 'kwargs': kwargs or {}, 'kinds': list(kinds),
                  'factory': factory, 'run': run, 'target_none': target_none, 'vclass': vclass, 'waitmode': waitmode})
    small = ['none', 'zero', 'false', 'empty_str', 'empty_list', 'empty_dict', 'float', 'int', 'str', 'tuple', 'nested', 'point', 'points', 'datetime', 'decimal',
             'copyreg', 'copyreg_nested', 'copyreg_late']
    sizes = ['b0', 'b1', 'b4k', 'b64k-1', 'b64k', 'b64k+1', 'b256k', 'b1m'] + (['b4m'] if tier == 'thorough' else [])
    for v in small:
        add('mod_value', 'module', (v,))
    for v in sizes:
        add('mod_value', 'module', (v,), vclass='big' if v in ('b256k', 'b1m', 'b4m') else 'small')
    for v in ('none', 'nested', 'point', 'b64k+1'):
        add('main_value', 'main', (v,))
        add('mod_value', 'module', (v,), factory='create')
    for e in ('value_err', 'key_err', 'mod_err', 'noargs', 'os_err', 'zero_div'):
        add('mod_raise', 'module', (e,))
    add('main_raise', 'main', ('main_err',))
    add('main_raise', 'main', ('value_err',), factory='create')
    for args, kw in (((), {}), ((1, 'a', None), {}), ((), {'k': 1, 'z': [1, 2]}), (([1, (2,)], 0), {'kw': {'x': None}})):
        add('mod_echo', 'module', args, kw)
        add('main_echo', 'main', args, kw)
    # outcomes that take a while to arrive / to be rebuilt in the parent, awaited in short slices: wait(0.25) until True
    add('mod_value', 'module', ('slowreb',), waitmode='sliced')
    add('mod_raise', 'module', ('slowreb_err',), waitmode='sliced')
    add('mod_value', 'module', ('b1m',), waitmode='sliced', vclass='big')
    add('mod_slow', 'module', (3, 1), waitmode='sliced')
    # long-running calls (one kind each, they run in separate shards)
    for k in ('remote', 'process', 'thread'):
        add('mod_slow', 'module', (7, 12 if k == 'remote' else 3), kinds=(k,))
    add('mod_slow_raise', 'module', (13, 12), kinds=('remote',))
    # run flag / target None: dead at once, has_error False, result None
    for run in ('none', 'true', 'false'):
        add('mod_value', 'module', ('int',), run=run)
        add('mod_value', 'module', ('int',), run=run, target_none=True)
        add('mod_value', 'module', ('int',), run=run, factory='create')
    if tier == 'thorough':
        for v in small + sizes:
            add('main_value', 'main', (v,))
            add('mod_value', 'module', (v,), factory='create')
        for e in ('value_err', 'key_err', 'mod_err', 'noargs', 'os_err', 'zero_div'):
            add('main_raise', 'main', (e,))
            add('mod_raise', 'module', (e,), factory='create')
    for i, s in enumerate(S):
        s['id'] = 's%d' % i
    return S


def abstract(s, kind, rec):
    """the scenario of Transfer.tla this concrete case belongs to"""
    size = 3 if s['vclass'] == 'big' else 1
    return (kind, s['run'], 'F' if s['target_none'] else 'T', rec['scn']['direct'], size)


def run(prop, tier, replay=None):
    T = Timer()
    ev = Evidence(prop, tier)
    os.environ['VERIF_REPO'] = REPO
    if replay is not None:
        scns = [replay['replay']['scn']]
    else:
        scns = scenarios(tier)

    # 1. the design
    allowed = {}
    if replay is None:
        base = open(os.path.join(tlc.SPEC, 'Transfer_mc.cfg')).read().replace('DrainInWait = TRUE', 'DrainInWait = ' + DRAIN_IN_WAIT)
        r = tlc.run('Transfer', cfg_text=base, workers=4, coverage=True, must_complete=False, name='mc')
        ev.add_tlc('exhaustive: 3 kinds x run flag x target present x ending x size class, safety + liveness of wait()', r)
        if r.error and DRAIN_IN_WAIT == 'TRUE':
            raise MachineryError('Transfer.tla violates %s' % r.error)
        for k, rf, ht, e, sz, he, req, en in r.tags.get('ALLOWED', []):
            allowed.setdefault((k, rf, ht, e, sz), set()).add((he, req, en))
        rp = tlc.run('Transfer', cfg_text=base.replace('DrainInWait = ' + DRAIN_IN_WAIT, 'DrainInWait = FALSE'), workers=4, must_complete=False, name='prefix')
        rw = tlc.run('Transfer', cfg_text=base.replace('INVARIANT AllowedDump', 'INVARIANT W_NeverBlocksInPut').replace('PROPERTY Live_WaitReturns\n', ''),
                     workers=4, must_complete=False, name='w')
        if rp.error != 'temporal' or rw.error != 'invariant:W_NeverBlocksInPut':
            raise MachineryError('vacuity: pre-fix model %s, witness %s' % (rp.error, rw.error))
        ev.cov['witnesses'] = {'join_before_drain_model': 'liveness violated (wait() of a process worker with a result larger than the pipe buffer never returns)',
                               'W_NeverBlocksInPut': 'reached'}

    # 2. real executions in runner scripts executed as __main__
    d = sub_scratch('c02')
    nshard = 1 if replay is not None else 10
    procs = []
    for i in range(nshard):
        part = scns[i::nshard]
        if not part:
            continue
        inp, outp = os.path.join(d, 'in%d.json' % i), os.path.join(d, 'out%d.json' % i)
        json.dump(part, open(inp, 'w'))
        env = dict(os.environ, PYTHONPATH=':'.join([VERIF, REPO]), VERIF_REPO=REPO, PYTHONHASHSEED='0')
        procs.append((subprocess.Popen([PY, RUNNER, inp, outp], env=env, stdout=subprocess.DEVNULL, stderr=subprocess.DEVNULL), outp))
    records = []
    for p, outp in procs:
        try:
            p.wait(timeout=900)
        except subprocess.TimeoutExpired:
            p.kill()
            raise MachineryError('C02 runner did not finish')
        if not os.path.exists(outp):
            raise MachineryError('C02 runner produced no output (exit %s)' % p.returncode)
        records += json.load(open(outp))
    meta = {r['id']: r.pop('meta') for r in records}
    for r in records:
        for k in r['obs']['kinds'].values():
            k.pop('detail', None) if False else None
    jrecs = [{'id': r['id'], 'scn': r['scn'], 'obs': {'kinds': {k: {f: v for f, v in d_.items() if f != 'detail'} for k, d_ in r['obs']['kinds'].items()}}} for r in records]
    fails, rj = tlc.judge('TransferJudge', jrecs, name='judge')
    ev.add_tlc('judge: C02 operators on %d scenarios x 3 kinds' % len(records), rj, role='judge')
    if replay is not None:
        print('replayed:', json.dumps(records)[:3000])
        for _, c in fails:
            print('VIOLATION property=C02 replay=(given) clause=%s' % c)
        return 1 if fails else 0
    per = {}
    for rid, clause in fails:
        per.setdefault(rid, []).append(clause)
    violations = []
    byid = {r['id']: r for r in records}
    for rid, clauses in per.items():
        r, m = byid[rid], meta[rid]
        bad = {k: d_ for k, d_ in r['obs']['kinds'].items() if d_.get('done') != 'T' or 'F' in (d_.get('result_eq') if r['scn']['direct'] == 'ret' and r['scn']['runs'] == 'T' else 'T',)
               or d_.get('has_error') in ('None', 'raised')}
        kinds_bad = sorted(k for k, d_ in r['obs']['kinds'].items() if d_.get('done') != 'T')
        sig = 'C02|%s|target=%s|where=%s|vclass=%s|factory=%s|run=%s|direct=%s|notdone=%s' % (
            '+'.join(sorted(clauses)), m['target'], m['where'], m['vclass'], m['factory'], m['run'], r['scn']['direct'], ','.join(kinds_bad) or 'none')
        violations.append(Violation('C02', sig, '%s fails for %s(%s) [%s-defined, factory=%s, run=%s]: %s'
                                    % (','.join(clauses), m['target'], m['args'], m['where'], m['factory'], m['run'], json.dumps(r['obs']['kinds'])[:600]),
                                    {'scn': m}))
    # 3. conformance with the model, per abstract scenario
    drift, checked = [], 0
    for r in records:
        m = meta[r['id']]
        for kind, d_ in r['obs']['kinds'].items():
            if d_['done'] != 'T':
                continue
            al = allowed.get(abstract(m, kind, r))
            if not al:
                continue
            checked += 1
            t = (d_['has_error'], d_['result_eq'] if r['scn']['runs'] == 'T' and r['scn']['direct'] == 'ret' else 'F', d_['error_none'])
            if t not in al and len(drift) < 5:
                drift.append('%s %s(%s) run=%s: model allows %s, real %s' % (kind, m['target'], m['args'], m['run'], sorted(al), t))
    ev.cov['traces_validated_against_impl'] = checked - len(drift)
    ev.cov['evaluations'] = 3 * len(records)
    ev.cov['distinct_nontrivial'] = len(set((m['target'], m['where'], json.dumps(m['args']), json.dumps(m['kwargs'], sort_keys=True), m['factory'], m['run'], m['target_none'])
                                            for m in meta.values()))
    ev.cov['rule'] = 'each case = (target, where defined, args, kwargs, factory, run flag, target None) executed in 3 kinds and directly; distinct by that tuple; all are non-trivial (a worker is created)'
    ev.cov['exhaustive'] = False
    for r in records[:2] + records[-1:]:
        ev.sample({'scenario': meta[r['id']], 'scn': r['scn'], 'obs': r['obs']})
    ev.assumptions += ['targets are deterministic and picklable; equality = == plus identical type',
                       'sizes cross the 64 KiB pipe buffer and the ~200 KB socket-pair buffer; "big" = >= 256 KiB']
    return finish(ev, violations, T.s(), drift)
