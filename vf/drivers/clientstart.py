"""C20 - creating a worker returns a usable worker or raises; it never hangs.

spec/ClientStart.tla models the constructor (P), the frontend thread (F) and a server that
fails at every step of the handshake (plus the process kind's sentinel path).  TLC checks
liveness "the constructor returns or raises" and the safety clauses, rejects the pre-fix
variants and enumerates every (scenario, outcome).  Every scenario TLC enumerates is
replayed on the REAL constructor: against a scripted server (plain listening socket that
reads what the client sends and then cuts the control-address / runtime-info frame at byte
offsets with FIN or RST, refuses the control connect, ...), against a real server that does
not know the context id, against a real server SIGKILLed at handshake steps (through a
byte-forwarding tap), and with child processes that exit before reporting their identity.
Each real execution is judged by TLC (ClientStartJudge) and compared with the model."""
import json
import os
import signal
import socket
import struct
import subprocess
import sys
import threading
import time
from concurrent.futures import ThreadPoolExecutor

CHECKS = {
    'C20': dict(
        engine='ClientStart',
        technique='TLA+ spec ClientStart.tla (constructor, frontend thread, server failing at every handshake step, process-kind sentinel path) model-checked with TLC: liveness "constructor returns or raises" under weak fairness, safety Usable/NoLeftover, pre-fix variants rejected; every scenario TLC enumerates is replayed on the real RemoteWorker/ProcessWorker constructors (scripted server cutting the two server-to-client frames at byte offsets with FIN/RST, refused control connect, unknown context id on a real server, real server SIGKILLed at handshake steps through a tap and inside the start-up window of the backend (slow-starting backend via main_path), runtime-info frame of a REAL server cut on the control connection by a client-side proxy (both remote kinds), child exiting before reporting); TLC judges each real execution (ClientStartJudge); leftovers from /proc',
        text='Exhaustive TLC model checking of the client side of the start-up handshake against a server that fails at every step (39 remote + 2 process scenarios, incl. a server dying between "backend started" and "go-ahead sent"), bound to the code by replaying every enumerated scenario (byte offsets first/middle/last, thorough: every offset) on the real constructors with a 6 s hang bound and judging each execution with the same TLA+ operators.',
        note='Trusted: TLC; the scripted server reproduces the server side of the protocol up to the fault; a hang is "constructor still blocked after 6 s" (healthy construction takes ~0.1-0.3 s); byte offsets inside a frame are abstracted to none/part/full in the model and enumerated concretely in the replay; a server that stays connected but never answers is outside the property except for the unknown-context case.',
        design_ref='6/C20'),
}

HANG = 6.0
WINDOW = 2.0          # how long the slow-starting backend stays between "started" and "reports its identity"
GRACE = 1.5


def _pstate(pid):
    try:
        with open('/proc/%d/stat' % pid) as f:
            s = f.read()
        r = s[s.rindex(')') + 2:].split()
        return r[0], int(r[1])
    except (OSError, ValueError):
        return 'X', -1


def _session_procs(sid, me):
    """live (non-zombie) processes of session `sid` other than `me`"""
    out = []
    for d in os.listdir('/proc'):
        if not d.isdigit() or int(d) == me:
            continue
        try:
            with open('/proc/%s/stat' % d) as f:
                s = f.read()
            r = s[s.rindex(')') + 2:].split()
            if int(r[3]) == sid and r[0] not in 'ZXx':
                out.append(int(d))
        except (OSError, ValueError, IndexError):
            pass
    return out


def _read_frame(sock):
    def exact(n):
        buf = b''
        while len(buf) < n:
            c = sock.recv(n - len(buf))
            if not c:
                raise EOFError
            buf += c
        return buf
    hdr = exact(4)
    return hdr + exact(struct.unpack('!I', hdr)[0])


def _end(sock, how):
    try:
        if how == 'rst':
            sock.setsockopt(socket.SOL_SOCKET, socket.SO_LINGER, struct.pack('ii', 1, 0))
        sock.close()
    except OSError:
        pass


def _frame(rp, obj):
    b = rp.dumps(obj)
    return struct.pack('!I', len(b)) + b


def _offset(step, frame, off):
    if off is not None:
        return off
    return {'0': 0, 'M': len(frame) // 2, 'L': len(frame) - 1}[step[-1]]


class ScriptedServer(threading.Thread):
    """The server side of the handshake up to the fault of the scenario."""

    def __init__(self, rp, step, how, off):
        super().__init__(daemon=True, name='scripted-server')
        self.rp, self.step, self.how, self.off = rp, step, how, off
        self.lsock = socket.socket()
        self.lsock.bind(('127.0.0.1', 0))
        self.lsock.listen(4)
        self.addr = self.lsock.getsockname()
        self.keep = []
        self.log = []
        self.info = ('scripted-host', 4242, 4243, 4244)

    def run(self):
        try:
            self.lsock.settimeout(10)
            cli, _ = self.lsock.accept()
            cli.settimeout(10)
            self.keep.append(cli)
            _read_frame(cli)
            self.log.append('hdr')
            if self.step == 'hdr':
                return _end(cli, self.how)
            _read_frame(cli)
            self.log.append('self')
            if self.step == 'self':
                return _end(cli, self.how)
            ctl = socket.socket()
            ctl.bind(('127.0.0.1', 0))
            ctl.listen(1)
            caddr = ctl.getsockname()
            if self.step == 'conn':
                ctl.close()                       # nobody listens there: the control connect is refused
            fr = _frame(self.rp, caddr)
            if self.step.startswith('addr'):
                k = _offset(self.step, fr, self.off)
                if k >= len(fr):
                    self.log.append('script-error:offset %d beyond the frame (%d bytes)' % (k, len(fr)))
                    return _end(cli, 'fin')
                if k:
                    cli.sendall(fr[:k])
                self.log.append('addr[%d/%d]' % (k, len(fr)))
                return _end(cli, self.how)
            cli.sendall(fr)
            self.log.append('addr')
            if self.step == 'conn':
                return
            ctl.settimeout(10)
            cc, _ = ctl.accept()
            self.keep.append(cc)
            ctl.close()
            self.log.append('accept')
            fr = _frame(self.rp, self.info)
            if self.step.startswith('info'):
                k = _offset(self.step, fr, self.off)
                if k >= len(fr):
                    self.log.append('script-error:offset %d beyond the frame (%d bytes)' % (k, len(fr)))
                    return _end(cc, 'fin')
                if k:
                    cc.sendall(fr[:k])
                self.log.append('info[%d/%d]' % (k, len(fr)))
                return _end(cc, self.how)          # the data connection stays open
            cc.sendall(fr)
            self.log.append('info')
        except Exception as e:  # noqa
            self.log.append('script-error:%s:%s' % (type(e).__name__, e))


class Tap(threading.Thread):
    """Forwards the data connection between the client and a REAL server and SIGKILLs the server at a step."""

    def __init__(self, srv_addr, srv_pid, step):
        super().__init__(daemon=True, name='tap')
        self.srv_addr, self.srv_pid, self.step = srv_addr, srv_pid, step
        self.lsock = socket.socket()
        self.lsock.bind(('127.0.0.1', 0))
        self.lsock.listen(2)
        self.addr = self.lsock.getsockname()
        self.log = []

    def kill(self):
        try:
            os.kill(self.srv_pid, signal.SIGKILL)
        except OSError:
            pass
        t0 = time.monotonic()
        while _pstate(self.srv_pid)[0] not in 'ZXx' and time.monotonic() - t0 < 5:
            time.sleep(0.002)
        self.log.append('killed')

    def run(self):
        try:
            self.lsock.settimeout(10)
            cli, _ = self.lsock.accept()
            cli.settimeout(10)
            up = socket.create_connection(self.srv_addr, 5)
            up.settimeout(10)
            up.sendall(_read_frame(cli))
            self.log.append('hdr')
            if self.step == 'kill_hdr':
                self.kill()
                up.close()
                return cli.close()
            up.sendall(_read_frame(cli))
            self.log.append('self')
            if self.step == 'kill_self':
                self.kill()
                up.close()
                return cli.close()
            fr = _read_frame(up)
            cli.sendall(fr)
            self.log.append('addr')
            if self.step == 'kill_addr':
                self.kill()
                up.close()
                return cli.close()
            # kill_spawn: as soon as the server has spawned the backend (a child of the server appears)
            t0 = time.monotonic()
            while time.monotonic() - t0 < 8:
                kids = [int(d) for d in os.listdir('/proc') if d.isdigit() and _pstate(int(d))[1] == self.srv_pid]
                kids = [k for k in kids if _cmd_is_spawn(k)]
                if kids:
                    self.log.append('backend %s' % kids)
                    break
                time.sleep(0.001)
            self.kill()
            up.close()
            cli.close()
        except Exception as e:  # noqa
            self.log.append('tap-error:%s:%s' % (type(e).__name__, e))


class CtrlProxy(threading.Thread):
    """Client-side proxy on the CONTROL connection to a real server: relays the connection, except that only the first k
    bytes of the first server->client frame (the runtime info, sent once the backend child is up) are forwarded before the
    connection is dropped with FIN or RST.  The backend's pid is read from that frame."""

    def __init__(self, rp, real_addr, step, how, off, connect):
        super().__init__(daemon=True, name='ctrl-proxy')
        self.rp, self.real_addr, self.step, self.how, self.off, self._connect = rp, real_addr, step, how, off, connect
        self.lsock = socket.socket()
        self.lsock.bind(('127.0.0.1', 0))
        self.lsock.listen(1)
        self.addr = self.lsock.getsockname()
        self.log = []
        self.backend_pid = None
        self.done = threading.Event()

    def run(self):
        cli = up = None
        try:
            self.lsock.settimeout(10)
            cli, _ = self.lsock.accept()
            self.lsock.close()
            up = socket.socket()
            self._connect(up, self.real_addr)
            up.settimeout(15)
            fr = _read_frame(up)
            try:
                self.backend_pid = self.rp.loads(fr[4:])[1]
            except Exception:  # noqa
                pass
            k = _offset(self.step, fr, self.off)
            if k >= len(fr):
                self.log.append('script-error:offset %d beyond the frame (%d bytes)' % (k, len(fr)))
                k = 0
            if k:
                cli.sendall(fr[:k])
            self.log.append('rinfo[%d/%d] backend %s' % (k, len(fr), self.backend_pid))
            _end(cli, self.how)
            cli = None
        except Exception as e:  # noqa
            self.log.append('script-error:%s:%s' % (type(e).__name__, e))
        finally:
            for s_ in (cli, up):
                try:
                    if s_ is not None:
                        s_.close()
                except OSError:
                    pass
            self.done.set()


def _data_socks_open(addr):
    """our own socket fds that are still connected to `addr` (the server's data address)"""
    want = '%02X%02X%02X%02X:%04X' % tuple(list(reversed([int(x) for x in addr[0].split('.')])) + [addr[1]])
    inodes = set()
    try:
        with open('/proc/net/tcp') as f:
            for line in list(f)[1:]:
                p_ = line.split()
                if p_[2] == want and p_[3] != '06':        # any state but TIME_WAIT
                    inodes.add(p_[9])
    except OSError:
        return 0
    n = 0
    for fd in os.listdir('/proc/self/fd'):
        try:
            l = os.readlink('/proc/self/fd/' + fd)
        except OSError:
            continue
        if l.startswith('socket:[') and l[8:-1] in inodes:
            n += 1
    return n


SLOW_MAIN = '''import os, time
if __name__ == '__new_main__':          # re-run inside a remote backend (RemoteWorker._run_backend)
    d = os.environ.get('LIFE_FLAGDIR')
    if d:
        open(os.path.join(d, 'window.%d' % os.getpid()), 'w').close()
    time.sleep(float(os.environ.get('LIFE_WINDOW', '2')))
'''


class WindowKiller(threading.Thread):
    """SIGKILLs the real server while its backend sits in the start-up window (flag written by SLOW_MAIN)."""

    def __init__(self, flagdir, srv_pid):
        super().__init__(daemon=True, name='window-killer')
        self.flagdir, self.srv_pid = flagdir, srv_pid
        self.log = []

    def run(self):
        t0 = time.monotonic()
        while time.monotonic() - t0 < 15:
            fl = [f for f in os.listdir(self.flagdir) if f.startswith('window.')]
            if fl:
                self.log.append('backend %s in the window' % fl[0].split('.')[1])
                break
            time.sleep(0.002)
        else:
            self.log.append('tap-error:the backend never reached the start-up window')
            return
        try:
            os.kill(self.srv_pid, signal.SIGKILL)
        except OSError:
            pass
        t0 = time.monotonic()
        while _pstate(self.srv_pid)[0] not in 'ZXx' and time.monotonic() - t0 < 5:
            time.sleep(0.002)
        self.log.append('killed')


def _cmd_is_spawn(pid):
    try:
        with open('/proc/%d/cmdline' % pid, 'rb') as f:
            c = f.read()
        return b'spawn_main' in c and b'resource_tracker' not in c
    except OSError:
        return False


def host_main(case_path, out_path):
    with open(case_path) as f:
        case = json.load(f)
    repo = os.environ.get('VERIF_REPO', '/repo')
    verif = os.path.dirname(os.path.dirname(os.path.dirname(os.path.abspath(__file__))))
    for p_ in (verif, repo):
        if p_ not in sys.path:
            sys.path.insert(0, p_)
    os.environ['PYTHONPATH'] = os.pathsep.join([repo, verif])
    import logging
    logging.disable(logging.CRITICAL)
    threading.excepthook = lambda a: None
    res = {'id': case['id'], 'error': None}
    srv = None
    try:
        from vf.drivers import _life_targets as TG
        from pyworkers import remote_pickle as rp
        kind, pers, step, how, mode = case['kind'], case['pers'] == 'T', case['step'], case['how'], case['server']
        me, sid = os.getpid(), os.getsid(0)
        script = tap = None
        flagdir = os.path.join(os.path.dirname(out_path), case['id'] + '.flags')
        os.makedirs(flagdir, exist_ok=True)
        os.environ['LIFE_FLAGDIR'] = flagdir          # inherited by the server and its backends
        os.environ['LIFE_WINDOW'] = str(WINDOW)
        slow_main = os.path.join(flagdir, 'slow_main.py')
        with open(slow_main, 'w') as f:
            f.write(SLOW_MAIN)
        with open(os.path.join(flagdir, 'life_modx.py'), 'w') as f:      # a module that calls sys.exit() when imported in a spawned child
            f.write(TG.LIFE_MODX)
        sys.path.insert(0, flagdir)
        os.environ['PYTHONPATH'] = os.pathsep.join([flagdir, os.environ['PYTHONPATH']])
        expect_id = None
        if kind == 'remote':
            from pyworkers.remote import RemoteWorker
            from pyworkers.persistent_remote import PersistentRemoteWorker
            cls = PersistentRemoteWorker if pers else RemoteWorker
            kw = {}
            if mode == 'scripted':
                script = ScriptedServer(rp, step, how, case.get('off'))
                script.start()
                host = script.addr
                expect_id = script.info[:3]
            elif mode == 'none':            # nobody listens on the data port
                s_ = socket.socket()
                s_.bind(('127.0.0.1', 0))
                host = s_.getsockname()
                s_.close()
            elif step == 'kill_info':
                # a REAL server (own process) that kills itself exactly when it is about to send the runtime info
                af = os.path.join(flagdir, 'server.addr')
                sp = subprocess.Popen([sys.executable, '-c', 'from vf.drivers._life_targets import suicidal_server; suicidal_server(%r)' % af],
                                      stdout=subprocess.DEVNULL, stderr=subprocess.DEVNULL)
                t0 = time.monotonic()
                while not os.path.exists(af):
                    if time.monotonic() - t0 > 15 or sp.poll() is not None:
                        raise RuntimeError('the self-killing server did not come up')
                    time.sleep(0.01)
                a_, p_, _pid = open(af).read().split()
                host = (a_, int(p_))

                class _Srv:
                    pid = int(_pid)
                killed_srv = _Srv()
            else:
                from pyworkers.remote_server import spawn_server
                srv = spawn_server(('127.0.0.1', 0))
                if not srv.is_alive():
                    raise RuntimeError('could not start a real server: %r' % (srv.error,))
                host = srv.addr
                if step.startswith('rinfo'):
                    # the LAST handshake step fails, after the backend has been spawned: the client's connect() to the control
                    # address is redirected (in this process only) through a proxy that cuts the runtime-info frame
                    real_connect = socket.socket.connect
                    data_addr = tuple(srv.addr)
                    holder = {}

                    def redirected(sock, addr):
                        if 'proxy' not in holder and tuple(addr) != data_addr and addr[0] == '127.0.0.1' and threading.current_thread().name.endswith('(remote front)'):
                            holder['proxy'] = CtrlProxy(rp, tuple(addr), 'info' + step[5:], how, case.get('off'), real_connect)
                            holder['proxy'].start()
                            addr = holder['proxy'].addr
                        return real_connect(sock, addr)
                    socket.socket.connect = redirected
                    tap = holder
                elif step == 'kill_window':
                    # the server dies between "backend started" and "go-ahead sent": the backend is given a main script that
                    # marks a flag and sleeps when re-run as __new_main__ (remote.py: main_path), i.e. after it has started its
                    # control thread and before it reports its identity; the server is SIGKILLed as soon as the flag appears
                    kw['main_path'] = slow_main
                    tap = WindowKiller(flagdir, srv.pid)
                    tap.start()
                elif step.startswith('kill_'):
                    tap = Tap(srv.addr, srv.pid, step)
                    tap.start()
                    host = tap.addr
                if step == 'unknown_ctx':
                    kw['context'] = 'no-such-context'
            tgt = TG.pers_target if pers else (TG.quick_ret if (step.startswith('rinfo') and case.get('variant') != 'long') else TG.coop_loop)
            if step == 'bk_baseexc':
                import life_modx
                tgt = life_modx.work          # unpickling it in the backend raises SystemExit
            make = lambda: cls(target=tgt, host=host, name='csW', **kw)  # noqa
        else:
            from pyworkers.process import ProcessWorker
            from pyworkers.persistent_process import PersistentProcessWorker
            if step == 'healthy':
                cls, tgt = (PersistentProcessWorker if pers else ProcessWorker), (TG.pers_target if pers else TG.coop_loop)
            elif case.get('variant') == 'modexit':
                import life_modx
                cls, tgt = (PersistentProcessWorker if pers else ProcessWorker), life_modx.work
            elif case.get('variant') == 'ctrl':
                cls, tgt = (TG.CtrlExitPersistentProcessWorker if pers else TG.CtrlExitProcessWorker), TG.coop_loop
            else:
                cls, tgt = (PersistentProcessWorker if pers else ProcessWorker), TG.ExitOnLoad()
            make = lambda: cls(target=tgt, name='csW')  # noqa

        seen = set()
        stop = threading.Event()

        def scan():
            while not stop.is_set():
                seen.update(_session_procs(sid, me))
                time.sleep(0.002)
        threading.Thread(target=scan, daemon=True, name='scan').start()
        box = {}

        def hold_after_start(frame, event, arg):
            # scheduling device (no source edit): inside RemoteWorker._start, at the first line executed after the frontend thread
            # has been started, the constructing thread is held until that thread has finished (its handshake has failed)
            if frame.f_code.co_name != '_start' or not frame.f_code.co_filename.endswith('remote.py'):
                return None

            def local(fr, ev, a):
                if ev == 'line' and not box.get('held') and any(t.name.endswith('(remote front)') for t in threading.enumerate()):
                    box['held'] = True
                    t1 = time.monotonic()
                    while any(t.name.endswith('(remote front)') and t.is_alive() for t in threading.enumerate()) and time.monotonic() - t1 < 3:
                        time.sleep(0.002)
                return local
            return local

        def ctor():
            t0 = time.monotonic()
            try:
                if case.get('variant') == 'front_first':
                    sys.settrace(hold_after_start)
                try:
                    box['w'] = make()
                finally:
                    sys.settrace(None)
            except BaseException as e:  # noqa
                box['exc'] = type(e).__name__
                box['err'] = e          # kept, as a caller that logs or collects failures would (nothing is left to the cycle collector)
                # a failed construction registers nothing: Worker.active_children() must still work - asked by the thread that
                # called the constructor, as a caller would - and list no half-built worker
                try:
                    from pyworkers.worker import Worker
                    for ch_ in list(Worker.active_children()):
                        ch_.is_alive()
                        if ch_.pid == me:
                            box['registry'] = 'broken'
                except BaseException as e2:  # noqa
                    box['registry'] = 'broken'
                    box['registry_exc'] = type(e2).__name__
            box['dur'] = round(time.monotonic() - t0, 3)
        th = threading.Thread(target=ctor, daemon=True, name='ctor')
        th.start()
        th.join(HANG)
        outcome = 'hung' if th.is_alive() else ('raised' if 'exc' in box else 'returned')
        id_ok = 'na'
        if outcome == 'returned':
            w = box['w']
            wid = w.id
            seen.update(_session_procs(sid, me))       # the scanner thread may have been starved
            if expect_id is not None:
                id_ok = 'T' if tuple(wid) == tuple(expect_id) else 'F'
            else:
                pid = wid[1]
                st, ppid = _pstate(pid)
                parent = srv.pid if srv is not None else me
                id_ok = 'T' if (pid != me and (pid in seen) and (st in 'ZXx' or ppid == parent or ppid == 1)) else 'F'
        registry = box.get('registry', 'ok')
        if 'registry_exc' in box:
            res['registry_exc'] = box['registry_exc']
        data_open = 0
        if kind == 'remote' and outcome == 'raised' and mode != 'none':
            data_open = _data_socks_open(tuple(host) if not step.startswith('rinfo') else tuple(srv.addr))   # right after the constructor raised
        if isinstance(tap, dict):
            pr = tap.get('proxy')
            if pr is not None:
                pr.done.wait(5)
            tap = pr
            if pr is None:
                class _NoProxy:
                    log = ['tap-error:the control connect of the frontend thread was not seen']
                tap = _NoProxy()
        leftover = -1
        if outcome != 'returned':
            # whatever the failed construction started must be gone (the healthy server itself is not a leftover)
            t0 = time.monotonic()
            keep = {srv.pid} if (srv is not None and not step.startswith('kill_')) else set()
            while True:
                left = [p for p in _session_procs(sid, me) if p not in keep and not _is_tracker(p)]
                if not left or time.monotonic() - t0 > GRACE:
                    break
                time.sleep(0.01)
            leftover = len(left)
            res['leftover_cmds'] = [_cmdline(p) for p in left][:4]
        else:
            leftover = 0
        stop.set()
        res.update(outcome=outcome, exc=box.get('exc', ''), dur=box.get('dur', -1.0), id_ok=id_ok, leftover=leftover, data_open=data_open, registry=registry,
                   script_log=(script.log if script else tap.log if tap else []))
    except BaseException as e:  # noqa
        import traceback
        res['error'] = '%s: %s\n%s' % (type(e).__name__, e, traceback.format_exc()[-1500:])
    finally:
        with open(out_path, 'w') as f:
            json.dump(res, f)
        sys.stdout.flush()
        os._exit(0)


def _cmdline(pid):
    try:
        with open('/proc/%d/cmdline' % pid, 'rb') as f:
            return f.read().replace(b'\0', b' ').decode('utf-8', 'replace')[:160]
    except OSError:
        return ''


def _is_tracker(pid):
    c = _cmdline(pid)
    return 'resource_tracker' in c


# ======================================================================================
def _mc_cfg(**kw):
    import re
    from vf import tlc
    base = open(os.path.join(tlc.SPEC, 'ClientStart_mc.cfg')).read()
    for a, b in kw.items():
        base = re.sub(r'(?m)^(\s*%s\s*(=|<-)\s*).*$' % a, lambda m: m.group(1) + b, base)
    return base


def _cases_from_paths(paths, tier):
    """TLC's enumerated scenarios -> concrete replay cases (how the scenario is produced on real code)."""
    scns = sorted(set((k, st, how) for k, st, how, _ in paths))
    cases = []

    def add(**kw):
        kw['id'] = 'c%d' % len(cases)
        kw.setdefault('off', None)
        kw.setdefault('variant', '')
        cases.append(kw)
    for kind, st, how in scns:
        if kind == 'process':
            for pers in ('F', 'T'):
                if st == 'healthy':
                    add(kind=kind, pers=pers, step=st, how=how, server='na')
                else:
                    add(kind=kind, pers=pers, step=st, how=how, server='na', variant='unpickle')
                    add(kind=kind, pers=pers, step=st, how=how, server='na', variant='ctrl')
                    add(kind=kind, pers=pers, step=st, how=how, server='na', variant='modexit')
            continue
        if st == 'refuse_data':
            add(kind=kind, pers='F', step=st, how=how, server='none')
        elif st == 'unknown_ctx':
            for pers in ('F', 'T'):
                add(kind=kind, pers=pers, step=st, how=how, server='real')
        elif st == 'bk_baseexc':
            for pers in ('F', 'T'):
                add(kind=kind, pers=pers, step=st, how=how, server='real')
        elif st.startswith('kill_'):
            add(kind=kind, pers='F', step=st, how=how, server='real')
            if tier == 'thorough':
                add(kind=kind, pers='T', step=st, how=how, server='real')
        elif st.startswith('rinfo'):
            pers = 'T' if st.endswith('+pers') else 'F'
            add(kind=kind, pers=pers, step=st.replace('+pers', ''), how=how, server='real')
            if pers == 'F' and st.startswith('rinfoM'):
                # a one-shot worker whose target does not end by itself (the other one-shot cases use a short target)
                add(kind=kind, pers=pers, step='rinfoM', how=how, server='real', variant='long')
            if tier == 'thorough' and st.startswith('rinfoM'):
                for off in range(1, 60):
                    add(kind=kind, pers=pers, step='rinfoM', how=how, server='real', off=off)
        elif st == 'healthy':
            for pers in ('F', 'T'):
                add(kind=kind, pers=pers, step=st, how=how, server='scripted')
                add(kind=kind, pers=pers, step=st, how=how, server='real')
        else:
            add(kind=kind, pers='F', step=st, how=how, server='scripted')
            if (st, how) in (('hdr', 'rst'), ('addr0', 'fin'), ('conn', 'na'), ('infoM', 'fin')):
                # the same fault with the frontend thread scheduled first: the constructing thread is held right after Thread.start()
                add(kind=kind, pers='F', step=st, how=how, server='scripted', variant='front_first')
            if tier == 'thorough' or st in ('hdr', 'infoM'):
                add(kind=kind, pers='T', step=st, how=how, server='scripted')
            if tier == 'thorough' and st in ('addrM', 'infoM'):
                for off in range(1, 90):         # every byte offset inside the frame (frames are < 90 bytes; larger offsets are skipped by the host)
                    add(kind=kind, pers='F', step=st, how=how, server='scripted', off=off)
    return cases


def _run_hosts(cases, scratch, par=12):
    from vf.common import PY, REPO, VERIF, MachineryError
    env = dict(os.environ)
    env['PYTHONPATH'] = os.pathsep.join([REPO, VERIF])
    env['VERIF_REPO'] = REPO

    def one(case):
        cp = os.path.join(scratch, case['id'] + '.case.json')
        op = os.path.join(scratch, case['id'] + '.out.json')
        with open(cp, 'w') as f:
            json.dump(case, f)
        p = subprocess.Popen([PY, '-m', 'vf.drivers.clientstart', '--host', cp, op], cwd=VERIF, env=env,
                             stdout=subprocess.DEVNULL, stderr=subprocess.DEVNULL, start_new_session=True)
        try:
            p.wait(60)
        except subprocess.TimeoutExpired:
            pass
        try:
            os.killpg(p.pid, signal.SIGKILL)
        except OSError:
            pass
        p.wait()
        try:
            with open(op) as f:
                return json.load(f)
        except (OSError, ValueError):
            return {'id': case['id'], 'error': 'host produced no result'}
    with ThreadPoolExecutor(max_workers=par) as ex:
        outs = list(ex.map(one, cases))
    bad = [o for o in outs if o.get('error')]
    if len(bad) > max(1, len(cases) // 20):
        raise MachineryError('%d of %d replay hosts failed, first: %s' % (len(bad), len(cases), bad[0]['error']))
    return outs


def _record(case, out):
    return {'id': case['id'],
            'scn': {'kind': case['kind'], 'pers': case['pers'], 'step': case['step'], 'how': case['how'], 'server': case['server'],
                    'off': -1 if case.get('off') is None else case['off'], 'variant': case.get('variant', '')},
            'obs': {'outcome': out['outcome'], 'exc': out.get('exc', ''), 'id_ok': out['id_ok'], 'leftover': max(0, out['leftover']),
                    'data_open': out.get('data_open', 0), 'registry': out.get('registry', 'ok')}}


def _mkey(s):
    """the model's scenario key of a replayed case"""
    st = s['step'] + ('+pers' if s['step'].startswith('rinfo') and s['pers'] == 'T' else '')
    return (s['kind'], st, s['how'])


def run(prop, tier, replay=None):
    assert prop == 'C20'
    from vf import tlc
    from vf.common import MachineryError, Timer, sub_scratch
    from vf.report import Evidence, Violation, finish
    T = Timer()
    ev = Evidence(prop, tier)
    scratch = sub_scratch('cstart')
    violations, drift = [], []

    if replay is not None:
        case = dict(replay['replay'], id='replay')
        out = _run_hosts([case], scratch, par=1)[0]
        if out.get('error'):
            raise MachineryError('replay host failed: ' + out['error'])
        rec = _record(case, out)
        fails, _ = tlc.judge('ClientStartJudge', [rec], name='replay')
        print('replayed:', json.dumps(rec), out.get('script_log'))
        for _, clause in fails:
            print('VIOLATION property=C20 replay=(given) clause=%s' % clause)
        return 1 if fails else 0

    # ---- 1. TLC: fixed algorithm holds; pre-fix variants rejected; witnesses; scenario/outcome enumeration ----
    r = tlc.run('ClientStartMC', 'ClientStart_mc.cfg', name='mc', coverage=(tier == 'thorough'))
    ev.add_tlc('exhaustive: all start-up scenarios, liveness + safety, both fixes applied', r)
    if r.error:
        raise MachineryError('ClientStart.tla violates its own properties: %s\n%s' % (r.error, '\n'.join(r.trace[:60])))
    wit = {}
    rw = tlc.run('ClientStartMC', cfg_text=_mc_cfg(LateErrReset='TRUE').replace('INVARIANT TypeOK\n', ''), name='whatif_lateerrreset', must_complete=False, workers=2)
    if rw.error != 'invariant:Inv_Usable':
        raise MachineryError('what-if LateErrReset (error slot cleared after the frontend thread was started) is not rejected by Usable: %r' % rw.error)
    ev.add_tlc('what-if: _start clears the error slot after starting the frontend thread (must be rejected)', rw, role='vacuity')
    for nm_, kw_, why in (('whatif_gofirst', dict(GoFirst='TRUE'), 'the go-ahead precedes the runtime-info frame'),
                          ('pre_basereport', dict(Fix='FixNoBase'), 'the tree as it is: a BaseException during the backend start-up is not reported')):
        rw = tlc.run('ClientStartMC', cfg_text=_mc_cfg(**kw_), name=nm_, must_complete=False, workers=2)
        if rw.error != 'temporal':
            raise MachineryError('%s (%s) is not rejected by liveness: %r' % (nm_, why, rw.error))
        ev.add_tlc('%s: %s (must be rejected)' % (nm_, why), rw, role='vacuity')
    rw = tlc.run('ClientStartMC', cfg_text=_mc_cfg(Fix='FixNoSentinel'), name='pre_sentinel', must_complete=False, workers=2)
    if rw.error != 'invariant:Inv_NotRegistered':
        raise MachineryError('the variant without the sentinel fix (the tree as it is) is not rejected by NotRegistered: %r' % rw.error)
    ev.add_tlc('pre-fix variant FixNoSentinel: ProcessWorker._start returns normally when the child dies first (must be rejected)', rw, role='vacuity')
    for nm, fx in (('pre_all', 'FixOnlySentinel'), ('pre_report', 'FixNoReport'), ('pre_srvclose', 'FixNoSrv')):
        rw = tlc.run('ClientStartMC', cfg_text=_mc_cfg(Fix=fx), name=nm, must_complete=False, workers=2)
        if rw.error != 'temporal':
            raise MachineryError('pre-fix variant %s is not rejected by liveness: %r' % (fx, rw.error))
        wit[nm] = rw.error
        ev.add_tlc('pre-fix variant %s (must be rejected)' % fx, rw, role='vacuity')
    rw = tlc.run('ClientStartMC', cfg_text=_mc_cfg(LateClose='TRUE'), name='whatif_lateclose', must_complete=False, workers=2)
    if rw.error != 'temporal':
        raise MachineryError('what-if LateClose (backend keeps its copy of the server\'s pipe end until the go-ahead) is not rejected: %r' % rw.error)
    wit['whatif_lateclose'] = rw.error
    ev.add_tlc('what-if: backend closes its copy of the server\'s pipe end only after the go-ahead (must be rejected)', rw, role='vacuity')
    rw = tlc.run('ClientStartMC', cfg_text=_mc_cfg(LeakData='TRUE').replace('INVARIANT Inv_DataClosed\n', ''), name='whatif_leakdata', must_complete=False, workers=2)
    if rw.error != 'invariant:Inv_NoLeftover':
        raise MachineryError('what-if LeakData (the failure exit of _start forgets the data socket) is not rejected by NoLeftover: %r' % rw.error)
    wit['whatif_leakdata'] = rw.error
    ev.add_tlc('what-if: the failure exit of _start does not close the data socket (must be rejected)', rw, role='vacuity')
    rw = tlc.run('ClientStartMC', cfg_text=_mc_cfg(Scenarios='LongOneShot'), name='known_long_oneshot', must_complete=False, workers=2)
    if rw.error != 'invariant:Inv_NoLeftover':
        raise MachineryError('the known finding (one-shot backend with a never-ending target outlives a failed construction) is not reproduced by the model: %r' % rw.error)
    wit['known_long_oneshot'] = rw.error
    ev.add_tlc('known finding at model level: one-shot backend with a never-ending target, last-step failure (rejected by NoLeftover)', rw, role='vacuity')
    for w in ('W_Returned', 'W_Raised', 'W_FDead', 'W_Orphan', 'W_WindowEOF', 'W_RInfoBackend'):
        rw = tlc.run('ClientStartMC', cfg_text=_mc_cfg().replace('PROPERTY Live_Returns', 'INVARIANT ' + w), name=w, must_complete=False, workers=2)
        if rw.error != 'invariant:' + w:
            raise MachineryError('witness %s not reachable: %r' % (w, rw.error))
        wit[w] = 'reached'
    ev.cov['witnesses'] = wit
    allowed = {}
    for label, fx in (('pre', 'FixNone'), ('fix', 'FixAll'), ('cli', 'FixNoSrv'), ('srv', 'FixNoReport'), ('nobase', 'FixNoBase')):
        cfg = _mc_cfg(Fix=fx).replace('PROPERTY Live_Returns', 'INVARIANT PathDump').replace('SPECIFICATION Spec', 'INIT Init\nNEXT Next').replace('INVARIANT Inv_NotRegistered\n', '').replace('INVARIANT Inv_DataClosed\n', '')
        rp_ = tlc.run('ClientStartMC', cfg_text=cfg, workers=1, name='paths_' + label)
        if rp_.error:
            raise MachineryError('path dump failed: ' + rp_.error)
        if label in ('pre', 'fix'):
            ev.add_tlc('scenario/outcome enumeration (%s)' % fx, rp_)
        allowed[label] = {}
        for k, st, how, oc in rp_.tags.get('PATH', []):
            allowed[label].setdefault((k, st, how), set()).add(oc)
    paths = [tuple(x) for x in tlc_paths(allowed['pre'])]
    cases = _cases_from_paths(paths, tier)

    # ---- 2. spec -> code ----
    t_rep = Timer()
    outs = _run_hosts(cases, scratch)
    ev.cov['replay_wall_s'] = t_rep.s()
    records, meta = [], {}
    for case, out in zip(cases, outs):
        if out.get('error'):
            ev.cov.setdefault('host_errors', []).append({'case': case, 'error': out['error'][:300]})
            continue
        log = out.get('script_log') or []
        if any(str(x).startswith(('script-error', 'tap-error')) for x in log):
            # e.g. the requested offset lies beyond the frame: the scenario was not produced
            ev.cov['script_skips'] = ev.cov.get('script_skips', 0) + 1
            continue
        rec = _record(case, out)
        records.append(rec)
        meta[case['id']] = (case, out)
    if not records:
        raise MachineryError('no replay produced a record')

    # ---- 3. judge ----
    fails, rj = tlc.judge('ClientStartJudge', records, name='judge')
    ev.add_tlc('judge: C20 operators on %d real constructions' % len(records), rj, role='judge')
    for rid, clause in fails:
        case, out = meta[rid]
        before = 'never' if case['step'] == 'healthy' else 'info'
        sig = 'C20|%s|kind=%s|pers=%s|server=%s|before=%s|fault=%s:%s%s|%s' % (
            clause, case['kind'], case['pers'], case['server'], before, case['step'], case['how'],
            ('/' + case['variant']) if case.get('variant') else '',
            out['outcome'] if clause == 'C20_Returns' else 'registry=%s' % out.get('registry') if clause == 'C20_NotRegistered' else 'id_ok=%s,leftover=%d' % (out['id_ok'], out['leftover']))
        what = ('%s fails: %s%s constructor, %s server, fault %s:%s%s%s -> %s%s after %ss (script: %s)%s'
                % (clause, 'persistent ' if case['pers'] == 'T' else '', case['kind'], case['server'], case['step'], case['how'],
                   (' at byte %s' % case['off']) if case.get('off') is not None else '', (' [' + case['variant'] + ']') if case.get('variant') else '',
                   out['outcome'], (' ' + out['exc']) if out.get('exc') else '', out.get('dur'), ','.join(map(str, out.get('script_log') or [])),
                   ((' leftover: %s' % out.get('leftover_cmds')) if out.get('leftover', 0) > 0 else '') + ((' data sockets still open in the client: %d' % out['data_open']) if out.get('data_open') else '') + ((' Worker.active_children() afterwards: broken (%s)' % out.get('registry_exc', 'lists a half-built worker')) if out.get('registry') == 'broken' else '')))
        violations.append(Violation('C20', sig, what, {k: case[k] for k in ('kind', 'pers', 'step', 'how', 'server', 'off', 'variant')}))

    # ---- 4. conformance: which model explains every outcome ----
    fit = {}
    for label in ('pre', 'fix', 'cli', 'srv', 'nobase'):
        fit[label] = sum(1 for rec in records
                         if rec['obs']['outcome'] in allowed[label].get(_mkey(rec['scn']), ()))
    best = max(fit, key=lambda k: fit[k])
    ev.cov['conformance_detail'] = dict(fit, best=best, of=len(records))
    if fit[best] < len(records):
        for rec in records:
            s = rec['scn']
            if rec['obs']['outcome'] not in allowed[best].get(_mkey(s), ()) and len(drift) < 4:
                drift.append('constructor outcome %s for %s %s:%s (%s server) is not an outcome of ClientStart.tla with Fix=%s (model: %s)'
                             % (rec['obs']['outcome'], s['kind'], s['step'], s['how'], s['server'], best,
                                sorted(allowed[best].get(_mkey(s), ()))))
    for rec in records:
        if rec['obs']['outcome'] == 'raised' and rec['obs']['data_open'] and len(drift) < 6:
            s_ = rec['scn']
            drift.append('after the constructor raised (%s %s:%s, %s server) %d data socket(s) to the server are still open in the client; '
                         'ClientStart.tla closes the data connection on every failure exit of _start' % (s_['kind'], s_['step'], s_['how'], s_['server'], rec['obs']['data_open']))
    ev.cov['traces_validated_against_impl'] = fit[best]
    ev.cov['evaluations'] = len(records)
    ev.cov['distinct_nontrivial'] = len(set((r_['scn']['kind'], r_['scn']['pers'], r_['scn']['step'], r_['scn']['how'], r_['scn']['server'],
                                             r_['scn']['off'], r_['scn']['variant']) for r_ in records if r_['scn']['step'] != 'healthy'))
    ev.cov['rule'] = ('case = (kind, persistent, fault step, FIN/RST, byte offset, scripted/real server, early-exit variant); scenarios enumerated by TLC '
                      '(path dump of ClientStart.tla, %d scenarios) and instantiated with concrete offsets; non-trivial = a fault actually strikes during start-up'
                      % len(set((k, s, h) for k, s, h, _ in paths)))
    ev.cov['exhaustive'] = True
    ev.cov['replayed_cases'] = len(records)
    ev.cov['cases_by_kind'] = {k: sum(1 for r_ in records if r_['scn']['kind'] == k) for k in ('remote', 'process')}
    ev.cov['cases_by_server'] = {k: sum(1 for r_ in records if r_['scn']['server'] == k) for k in ('scripted', 'real', 'none', 'na')}
    for rec in records[:1] + [r_ for r_ in records if r_['scn']['step'] == 'infoM'][:1] + [r_ for r_ in records if r_['scn']['server'] == 'real'][:2] + [r_ for r_ in records if r_['scn']['kind'] == 'process'][-1:]:
        ev.sample({'scn': rec['scn'], 'obs': rec['obs'], 'script': meta[rec['id']][1].get('script_log')})
    ev.assumptions += ['a construction still blocked after %.0f s is a hang (healthy ones take 0.1-0.5 s)' % HANG,
                       'leftovers = live non-zombie processes of the replay host\'s session %.1f s after the constructor failed' % GRACE,
                       'byte offsets inside the two server-to-client frames: first/middle/last (quick), every offset (thorough)',
                       'a connected server that never answers is outside the property, except the unknown-context case']
    return finish(ev, violations, T.s(), drift)


def tlc_paths(amap):
    for (k, st, how), ocs in sorted(amap.items()):
        for oc in sorted(ocs):
            yield (k, st, how, oc)


if __name__ == '__main__':
    if len(sys.argv) == 4 and sys.argv[1] == '--host':
        host_main(sys.argv[2], sys.argv[3])
