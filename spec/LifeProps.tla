------------------------------ MODULE LifeProps ------------------------------
(* C01, C03, C06, C16 as operators over an observable record r = [scn |-> .., obs |-> ..]  *)
(* projected from one life of one worker (real run) or from a terminal state of OneShot.tla. *)
(* All optional / mixed-type fields are tagged strings.                                      *)
(*  scn.kind "thread"|"process"|"remote"   scn.persistent "T"|"F"                           *)
(*  scn.ending  what the work does on its own: "ret"|"exc"|"bexc"|"unreb"|"big"             *)
(*  scn.fault   "none" | "pause" (graceful terminate landed where the agent says) |         *)
(*              "sigkill" | "sigterm" | "bigkill" (killed while blocked sending its result) *)
(*  scn.landed "T" iff the fault was actually performed; scn.in_target, scn.in_finally,     *)
(*  scn.target_finished: where the child was (reported by the in-child agent)               *)
(*  scn.items  number of inputs enqueued (persistent)                                        *)
(*  obs.dead_observed "T"|"F"|"hung"; obs.term_ret "T"|"F"|"na"|..                          *)
(*  obs.reads  sequence of [alive, has_error, result, result_n, error] read after death     *)
(*  obs.fin_done "T" iff the target's finally block ran to its end                           *)
(*  obs.us_alive user_state seen by the parent while the child was paused ("init"|..|"na")  *)
(*  obs.us_end   parent's user_state after death vs the child's last assignment             *)
(*  obs.setter   "rejected" iff assigning user_state from the parent raised RuntimeError     *)
(*  obs.stream   [got |-> item numbers delivered, end |-> "ended"|"blocked"|.., again]      *)
EXTENDS Naturals, Sequences, FiniteSets, SequencesExt

Dead(r) == r.obs.dead_observed = "T"
Rd(r, k) == r.obs.reads[k]
NReads(r) == Len(r.obs.reads)
Pers(r) == r.scn.persistent = "T"

OkShape(r, d) == /\ d.has_error = "F" /\ d.error = "None"
                 /\ IF Pers(r) THEN d.result = "count" /\ d.result_n <= r.scn.items
                    ELSE d.result = "own" /\ r.scn.ending \in {"ret", "big", "badret"}
ErrShape(r, d) == /\ d.has_error = "T" /\ d.result = "None"
                  /\ d.error \in {"None", "WTE", "own"}
                  /\ (d.error = "own" => r.scn.ending \in {"exc", "bexc", "unreb"})
                  /\ (d.error = "WTE" => r.scn.fault = "pause")
WTEShape(d) == d.has_error = "T" /\ d.result = "None" /\ d.error = "WTE"
OwnShape(r, d) == IF r.scn.ending \in {"ret", "big"} THEN OkShape(r, d)
                  ELSE d.has_error = "T" /\ d.result = "None" /\ d.error \in {"own", "None"}

\* ---------------- C01 ----------------
C01_Definite(r) == Dead(r) => /\ NReads(r) >= 1
                              /\ \A k \in 1..NReads(r) : /\ Rd(r, k).alive = "F"
                                                         /\ Rd(r, k).has_error \in {"T", "F"}
                                                         /\ Rd(r, k).result \in {"None", "own", "count"}
                                                         /\ Rd(r, k).error \in {"None", "WTE", "own"}
C01_Shape(r) == Dead(r) => \A k \in 1..NReads(r) : OkShape(r, Rd(r, k)) \/ ErrShape(r, Rd(r, k))
C01_Stable(r) == Dead(r) => \A k \in 1..NReads(r) : Rd(r, k) = Rd(r, 1)
\* a worker that ended on its own, undisturbed, reports its own outcome (ties C01's "the value the work returned")
C01_Undisturbed(r) == (Dead(r) /\ r.scn.landed = "F" /\ NReads(r) >= 1) =>
                         IF r.scn.ending \in {"ret", "big"} THEN OkShape(r, Rd(r, 1))
                         \* a value that cannot be rebuilt in the parent: same memory for a thread, not transferable otherwise
                         ELSE IF r.scn.ending = "badret" THEN (IF r.scn.kind = "thread" THEN OkShape(r, Rd(r, 1)) ELSE Rd(r, 1).has_error = "T")
                         ELSE IF r.scn.ending = "exc" THEN Rd(r, 1).has_error = "T" /\ Rd(r, 1).error = "own"
                         \* a thread shares memory with its parent: whatever ended it can be reported
                         ELSE IF r.scn.kind = "thread" THEN Rd(r, 1).has_error = "T" /\ Rd(r, 1).error = "own"
                         ELSE Rd(r, 1).has_error = "T"

\* ---------------- C03 (records with fault = "pause" that landed) ----------------
Landed(r) == r.scn.fault = "pause" /\ r.scn.landed = "T"
C03_DeadInTime(r) == Landed(r) => r.obs.term_ret = "T" /\ Dead(r)
C03_Reported(r) == (Landed(r) /\ r.scn.in_target = "T") =>
                      /\ Dead(r) /\ NReads(r) >= 1 /\ WTEShape(Rd(r, 1))
                      /\ (r.scn.in_try = "T" => r.obs.fin_done = "T")      \* its finally block ran
C03_OwnOutcome(r) == (Landed(r) /\ r.scn.target_finished = "T" /\ Dead(r) /\ NReads(r) >= 1) => OwnShape(r, Rd(r, 1))
\* a persistent worker has "finished on its own" only once its work loop has returned (in_work = "F")
C03_NothingElse(r) == (Landed(r) /\ r.scn.target_started = "T" /\ Dead(r) /\ NReads(r) >= 1) =>
                         \/ WTEShape(Rd(r, 1))
                         \/ OwnShape(r, Rd(r, 1)) /\ (Pers(r) => r.scn.in_work = "F")
\* a request that arrives before the work has started (the child is initialising, or an idle persistent worker waits for its
\* first input) ends the worker as a terminated one all the same
C03_BeforeStart(r) == (Landed(r) /\ r.scn.target_started = "F" /\ r.scn.in_target = "F" /\ Dead(r) /\ NReads(r) >= 1) => WTEShape(Rd(r, 1))
\* terminate() on a worker whose target finished long ago and that nobody has looked at since: own outcome, True, no harm
C03_AfterFinish(r) == r.scn.fault = "term_after_finish" =>
                         /\ r.obs.term_ret = "T" /\ r.obs.bystander \in {"ok", "na"}
                         /\ Dead(r) /\ NReads(r) >= 1 /\ OwnShape(r, Rd(r, 1))

\* ---------------- C06 (persistent) ----------------
Expected(r) == [k \in 1..r.scn.items |-> k]
C06_Prefix(r) == Pers(r) => IsPrefix(r.obs.stream.got, Expected(r))
\* "after death": observed through the API, or a fact (the harness itself SIGKILLed the child process)
KilledForReal(r) == r.scn.landed = "T" /\ r.scn.fault \in {"sigkill", "fpause"}
C06_Ends(r) == (Pers(r) /\ (Dead(r) \/ KilledForReal(r))) => r.obs.stream.end = "ended" /\ r.obs.stream.again = "Empty"
\* undisturbed: everything enqueued is delivered
C06_All(r) == (Pers(r) /\ Dead(r) /\ r.scn.landed = "F" /\ r.scn.ending = "ret") => r.obs.stream.got = Expected(r)

\* ---------------- C16 ----------------
\* "ended in any way that lets it report (return, exception, graceful terminate)"
CanReport(r) == \/ r.scn.landed = "F" /\ r.scn.ending \in {"ret", "exc"}
                \/ Landed(r)
C16_SyncedAtEnd(r) == (Dead(r) /\ CanReport(r)) => r.obs.us_end = "last"
\* while the work is still in progress in the child (its do_work frame is on the stack)
C16_InitialWhileAlive(r) == (r.scn.kind \in {"process", "remote"} /\ r.scn.in_work = "T") => r.obs.us_alive \in {"init", "na"}
C16_SetterRejected(r) == r.obs.setter \in {"rejected", "na"}
\* a child that has reported but is still alive (wait(timeout) said False, is_alive() said True): still the initial state
C16_InitialWhileLingering(r) == r.scn.kind \in {"process", "remote"} => r.obs.linger \in {"init", "na"}
\* restart() starts the new incarnation from the last synchronised state (whatever the caller looked at before)
C16_RestartFrom(r) == r.obs.restart_from \in {"last", "na"}
==============================================================================
