#!/usr/bin/env python3
"""Mechanical mutation analysis of the checks (a complement to the hand-made seeded changes of DESIGN 11.5).

  tools/mutate.py gen  <out-dir> [--per-file N] [--seed S]     write small single-line mutants of pyworkers/*.py as patch files
  tools/mutate.py run  <out-dir> [--jobs J]                     for each mutant: repo tests of the touched area, then the mapped checks
  tools/mutate.py show <out-dir>                                summary: killed by tests / caught by a check / machinery failure / survived

Everything runs on scratch copies of /repo under /tmp (removed afterwards); nothing is written to /repo.
A surviving mutant is either equivalent (no observable change) or a gap in the checks: triage by hand."""
import ast
import json
import os
import random
import re
import shutil
import subprocess
import sys
import tempfile
from concurrent.futures import ThreadPoolExecutor

REPO = os.environ.get('VERIF_REPO', '/repo')
VERIF = os.path.dirname(os.path.dirname(os.path.abspath(__file__)))
PY = '/venv/bin/python'

# file -> (test files, checks)
AREAS = {
    'pool.py': ('tests/pool_test.py', 'C07 C08 C09'),
    'thread.py': ('tests/good_test.py tests/terminate_test.py tests/norun_test.py tests/state_test.py', 'C01 C03 C04 C16 C19'),
    'process.py': ('tests/good_test.py tests/terminate_test.py tests/norun_test.py tests/state_test.py', 'C01 C02 C03 C04 C16 C20'),
    'remote.py': ('tests/good_test.py tests/terminate_test.py tests/terminate_server_test.py tests/context_test.py tests/state_test.py',
                  'C01 C02 C03 C04 C10 C16 C20 C11'),
    'worker.py': ('tests/good_test.py tests/norun_test.py tests/state_test.py tests/persistent_restart_test.py', 'C01 C02 C16 C17 C19'),
    'persistent.py': ('tests/persistent_good_test.py tests/persistent_terminate_test.py tests/persistent_restart_test.py', 'C05 C06 C17'),
    'persistent_thread.py': ('tests/persistent_good_test.py tests/persistent_terminate_test.py tests/persistent_restart_test.py', 'C05 C06 C17 C03'),
    'persistent_process.py': ('tests/persistent_good_test.py tests/persistent_terminate_test.py tests/persistent_restart_test.py', 'C05 C06 C17 C03'),
    'persistent_remote.py': ('tests/persistent_good_test.py tests/persistent_terminate_test.py tests/persistent_restart_test.py tests/persistent_terminate_server_test.py',
                             'C05 C06 C17 C03 C18'),
    'remote_server.py': ('tests/terminate_server_test.py tests/context_test.py tests/good_test.py', 'C11 C12 C18 C20'),
    'remote_context.py': ('tests/context_test.py tests/terminate_server_test.py', 'C18 C12 C11'),
    'remote_pickle.py': ('tests/reduce_test.py tests/good_test.py tests/context_test.py', 'C13 C14 C15'),
    '_remote_pickle/state.py': ('tests/reduce_test.py tests/good_test.py tests/context_test.py', 'C13 C14 C15'),
    '_remote_pickle/remote_pickler_3_6.py': ('tests/reduce_test.py tests/good_test.py tests/context_test.py', 'C13 C14 C15'),
    'utils.py': ('tests/good_test.py tests/persistent_good_test.py tests/pool_test.py', 'C01 C06 C07 C03'),
}

SKIP = {'tmp_ssh_server', '_spawn_ssh_server', 'ssh_popen', 'main', 'run_server', 'classproperty', 'lazy_type', 'LazyModule', 'make_lazy',
        'setproctitle', 'setthreadtitle', 'get_hostname', 'is_windows', '__repr__', '_get_restart_args'}

LINE_RULES = [
    ('cmp', r' is not None', ' is None'), ('cmp', r' is None', ' is not None'), ('cmp', r' == ', ' != '), ('cmp', r' != ', ' == '),
    ('cmp', r' <= ', ' < '), ('cmp', r' >= ', ' > '), ('cmp', r' < ', ' <= '), ('cmp', r' > ', ' >= '), ('cmp', r' not in ', ' in '),
    ('bool', r' and ', ' or '), ('bool', r' or ', ' and '), ('bool', r'\bif not ', 'if '), ('bool', r'\bwhile not ', 'while '),
    ('const', r'\bTrue\b', 'False'), ('const', r'\bFalse\b', 'True'),
    ('const', r'(?<![\w.])0(?![\w.])', '1'), ('const', r'(?<![\w.])1(?![\w.])', '0'),
    ('except', r'except Exception\b', 'except OSError'), ('except', r'except BaseException\b', 'except Exception'),
    ('except', r'except:\s*$', 'except OSError:'), ('except', r'except \(([A-Za-z_.]+), [^)]*\)', r'except \1'),
    ('ret', r'\breturn True\b', 'return False'), ('ret', r'\breturn False\b', 'return True'),
]


def _single_line_statements(tree):
    """(lineno, kind) of simple one-line statements that can be replaced by `pass`"""
    out = []
    for node in ast.walk(tree):
        if isinstance(node, (ast.Expr, ast.Assign, ast.AugAssign)) and node.lineno == node.end_lineno:
            if isinstance(node, ast.Expr):
                if isinstance(node.value, ast.Constant):
                    continue                                  # docstring
                src = ast.unparse(node)
                if src.startswith(('logger.', 'logging.', 'print(', 'setproctitle', 'setthreadtitle')):
                    continue
            out.append(node.lineno)
    return out


def candidates(path):
    src = open(path, newline='').read()
    lines = src.split('\n')
    tree = ast.parse(src.replace('\r\n', '\n'))
    code_lines = set()
    for node in ast.walk(tree):
        if isinstance(node, (ast.FunctionDef, ast.AsyncFunctionDef)):
            for ln in range(node.body[0].lineno, node.end_lineno + 1):
                code_lines.add(ln)
    # outside the properties: ssh launcher, command line front end, lazy-module / classproperty plumbing, worker-type predicates
    for node in ast.walk(tree):
        if isinstance(node, (ast.FunctionDef, ast.ClassDef)) and (node.name in SKIP or node.name.startswith(('is_thread', 'is_process', 'is_remote', 'is_persistent'))):
            for ln in range(node.lineno, node.end_lineno + 1):
                code_lines.discard(ln)
    doc = set()
    for node in ast.walk(tree):
        if isinstance(node, ast.Expr) and isinstance(node.value, ast.Constant) and isinstance(node.value.value, str):
            doc.update(range(node.lineno, node.end_lineno + 1))
    cands = []
    for ln in sorted(code_lines - doc):
        text = lines[ln - 1]
        body = text.split('#', 1)[0]
        if not body.strip() or body.strip().startswith(('assert', 'logger.', 'def ', 'class ', '@', 'import ', 'from ', 'raise ')):
            continue
        for kind, pat, rep in LINE_RULES:
            for m in re.finditer(pat, body):
                new = body[:m.start()] + m.expand(rep) + body[m.end():] + text[len(body):]
                if new != text:
                    cands.append((ln, kind, text, new))
    for ln in _single_line_statements(tree):
        if ln in code_lines and ln not in doc:
            text = lines[ln - 1]
            stripped = text.lstrip()
            if stripped.startswith(('assert', 'logger.', 'super().__init__')):
                continue
            indent = text[:len(text) - len(stripped)]
            cr = '\r' if text.endswith('\r') else ''
            cands.append((ln, 'del', text, indent + 'pass' + cr))
    return src, lines, cands


def gen(out, per_file, seed):
    rng = random.Random(seed)
    os.makedirs(out, exist_ok=True)
    n = 0
    for rel in AREAS:
        path = os.path.join(REPO, 'pyworkers', rel)
        src, lines, cands = candidates(path)
        by_kind = {}
        for c in cands:
            by_kind.setdefault(c[1], []).append(c)
        picked = []
        kinds = sorted(by_kind)
        while len(picked) < per_file and any(by_kind.values()):
            for k in kinds:
                if by_kind[k] and len(picked) < per_file:
                    picked.append(by_kind[k].pop(rng.randrange(len(by_kind[k]))))
        for ln, kind, old, new in picked:
            n += 1
            d = tempfile.mkdtemp(prefix='mutgen-')
            try:
                subprocess.run(['cp', '-r', REPO + '/.', d], check=True)
                p2 = os.path.join(d, 'pyworkers', rel)
                ls = open(p2, newline='').read().split('\n')
                assert ls[ln - 1] == old
                ls[ln - 1] = new
                open(p2, 'w', newline='').write('\n'.join(ls))
                try:
                    compile(open(p2).read(), p2, 'exec')
                except SyntaxError:
                    continue
                diff = subprocess.run(['git', 'diff', '--', 'pyworkers'], cwd=d, capture_output=True).stdout
                mid = 'm%04d' % n
                open(os.path.join(out, mid + '.diff'), 'wb').write(diff)
                json.dump({'id': mid, 'file': rel, 'line': ln, 'kind': kind, 'old': old.strip(), 'new': new.strip()},
                          open(os.path.join(out, mid + '.json'), 'w'))
            finally:
                shutil.rmtree(d, True)
    print('%d mutants written to %s' % (len([f for f in os.listdir(out) if f.endswith('.diff')]), out))


def run_one(out, mid):
    meta = json.load(open(os.path.join(out, mid + '.json')))
    if 'result' in meta:
        return meta
    tests, checks = AREAS[meta['file']]
    d = tempfile.mkdtemp(prefix='mutrun-')
    try:
        subprocess.run(['cp', '-r', REPO + '/.', d], check=True)
        if subprocess.run(['git', 'apply', os.path.join(out, mid + '.diff')], cwd=d).returncode:
            meta['result'] = 'does_not_apply'
        else:
            try:
                t = subprocess.run([PY, '-m', 'pytest', '-q', '-x', '-p', 'no:cacheprovider', '--timeout=120'] + tests.split() +
                                   ['-k', 'not test_fun and not test_loop and not test_fn and not test_force_terminate and not test_retries_x2 '
                                          'and not test_run_twice and not test_surprise_terminate'],
                                   cwd=d, capture_output=True, text=True, timeout=900)
                tests_ok = t.returncode == 0
                meta['tests'] = t.stdout.strip().splitlines()[-1][:160] if t.stdout.strip() else ''
            except subprocess.TimeoutExpired:
                tests_ok = False
                meta['tests'] = 'timeout'
            if not tests_ok:
                meta['result'] = 'killed_by_tests'
            else:
                res = {}
                for c in checks.split():
                    try:
                        q = subprocess.run([os.path.join(VERIF, 'check'), c], cwd=VERIF, env=dict(os.environ, VERIF_REPO=d), capture_output=True,
                                           text=True, timeout=1500)
                        res[c] = q.returncode
                        if q.returncode == 1:
                            meta.setdefault('what', {})[c] = next((l.strip()[:300] for l in q.stdout.splitlines() if l.startswith('  what:')), '')
                            break                      # caught: no need to run the others
                        if q.returncode == 2:
                            meta.setdefault('what', {})[c] = next((l.strip()[:300] for l in q.stdout.splitlines() if 'MACHINERY' in l), '')
                        drift = [l[:200] for l in q.stdout.splitlines() if l.startswith('DRIFT')]
                        if drift:
                            meta.setdefault('drift', {})[c] = drift[:2]
                    except subprocess.TimeoutExpired:
                        res[c] = 'timeout'
                meta['checks'] = res
                meta['result'] = ('caught' if 1 in res.values() else 'machinery' if (2 in res.values() or 'timeout' in res.values()) else 'survived')
    finally:
        shutil.rmtree(d, True)
        subprocess.run('pkill -9 -f %s' % d, shell=True)
    json.dump(meta, open(os.path.join(out, mid + '.json'), 'w'))
    print(mid, meta['file'], meta['line'], meta['kind'], meta['result'], meta.get('checks', ''), flush=True)
    return meta


def run(out, jobs):
    ids = sorted(f[:-5] for f in os.listdir(out) if f.endswith('.json'))
    rng = random.Random(1)
    rng.shuffle(ids)
    with ThreadPoolExecutor(jobs) as ex:
        list(ex.map(lambda m: run_one(out, m), ids))
    show(out)


def show(out):
    metas = [json.load(open(os.path.join(out, f))) for f in sorted(os.listdir(out)) if f.endswith('.json')]
    done = [m for m in metas if 'result' in m]
    from collections import Counter
    print(Counter(m['result'] for m in done), 'of', len(metas))
    for m in done:
        if m['result'] in ('survived', 'machinery'):
            print('%s %-9s %s:%d [%s] %s  =>  %s   %s %s' % (m['id'], m['result'], m['file'], m['line'], m['kind'], m['old'][:70], m['new'][:70],
                                                           m.get('checks'), json.dumps(m.get('drift', ''))[:160]))


if __name__ == '__main__':
    cmd, out = sys.argv[1], sys.argv[2]
    opt = dict(zip(sys.argv[3::2], sys.argv[4::2]))
    if cmd == 'gen':
        gen(out, int(opt.get('--per-file', 12)), int(opt.get('--seed', 1)))
    elif cmd == 'run':
        run(out, int(opt.get('--jobs', 3)))
    else:
        show(out)
