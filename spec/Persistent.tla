------------------------------ MODULE Persistent ------------------------------
(* API histories of a persistent worker (pyworkers/persistent*.py), one parent, one child.  *)
(*                                                                                          *)
(* Parent (the caller): every public call is an action; blocking calls (wait, blocking      *)
(* next_result, call, restart, terminate) are a begin step and a return step enabled by     *)
(* the child's progress.  Calls that would block for ever (blocking next_result with        *)
(* nothing outstanding, wait() on an uncooperative target) are excluded by their enabling   *)
(* conditions: the replay driver only issues histories the spec marks as returning.         *)
(* Child: the do_work loop by critical section:                                             *)
(*   recv  - deepcopy defaults; get from the args channel (None = release)                  *)
(*           merge: args[0:len(extra)] = extra; kwargs.update(extra_kwargs)                 *)
(*   run   - call the target (may raise: "@raise"; may ignore termination: "@stuck")        *)
(*   send  - _counter += 1; put (counter, True, value, id) on the results channel           *)
(*   cleanup - put the end marker (counter, False, None, id); exiting; dead                 *)
(* Channels: argsQ (FIFO parent -> child), resQ (FIFO child -> parent).                     *)
(* restart() as written in PersistentWorker.restart: wait(timeout); else terminate(); if    *)
(* still alive raise; _get_result(); __dict__.clear(); __init__(..., _is_restart=True).     *)
(*                                                                                          *)
(* Switches (TRUE = the algorithm the spec stands for; FALSE = a known-wrong variant that   *)
(* TLC must reject):                                                                        *)
(*   TupleFix     FALSE: slice assignment on the deep-copied defaults even when they are a  *)
(*                tuple (the code before /repo commit 9521f35): TypeError                   *)
(*   CounterFirst FALSE: the counter is incremented after the put                           *)
(*   FreshPipe    FALSE: restart() keeps the old results channel                            *)
(*   ResetClosed  FALSE: restart() carries _closed over to the new incarnation              *)
(*   EnqChecksAlive FALSE: enqueue() of a remote worker tests the cached _dead flag instead *)
(*                of is_alive(): a worker that died on its own silently accepts an enqueue  *)
(*   WaitSwallowsBadResult FALSE: wait() of a process worker lets the error of rebuilding   *)
(*                the child's final message escape: restart() of a worker whose child dies  *)
(*                meanwhile by such an exception raises and replaces nothing                *)
(*   AliveAsksServer FALSE: is_alive() of a remote worker stops asking the server once the  *)
(*                final result has arrived: a child process that lingers after its report   *)
(*                ("@linger": the target left a non-daemon thread behind) counts as dead,   *)
(*                restart() replaces the object and abandons the running process            *)
(*   IterExact    FALSE: results_iter(maxitems=1) reads one result too many and drops it      *)
(*   OwnRunScn    scenario: the worker is a subclass overriding run(), built with target=None, *)
(*                run=True; RestartKeepsRun FALSE: restart() forgets run=True, so such a      *)
(*                worker comes back un-started (not alive, no child)                          *)
(*   ClosedGuard  FALSE: enqueue() of a process worker tests only is_alive() and relies on  *)
(*                the send failing: on a closed but still running worker it raises OSError   *)
(*                ("handle is closed") instead of WorkerClosedError                         *)
(*   BlockAfterClose FALSE: next_result() reads without blocking as soon as _closed is set  *)
(*                (not only when the worker is dead): a blocking read issued after close()  *)
(*                while the child still owes results reports the end of the stream early    *)
(* AllowBlock = TRUE (only to compute which call sequences can hang under some            *)
(* interleaving): a blocking next_result may also be issued when nothing will ever come;    *)
(* the history then ends with the outcome "hang".                                           *)
(* Timed restarts.  Time is counted in ticks (one tick = the timeout the caller passes to  *)
(* restart(timeout=t)); a tick passes only when nothing instantaneous is pending.           *)
(*   "@busy" item : the target sits in a blocking step for BusyTicks; an asynchronous       *)
(*                  WorkerTerminatedError surfaces when the step ends                       *)
(*   "@slowres"   : (remote) the frontend thread of the parent needs SlowTicks to rebuild   *)
(*                  the result; the remote child may be long dead meanwhile.  The frontend  *)
(*                  is a party of its own: `front`, with the message it holds (`fmsg`) and  *)
(*                  what arrived behind it (`sockQ`); is_alive() is true while it runs      *)
(*   restart(timeout=t) = wait(t) [close; join child; join frontend], and if that fails     *)
(*                  terminate() with ITS OWN default grace TermT, raise only if still alive *)
(*   WaitTruthful FALSE: wait() of a remote worker returns True once the remote side is     *)
(*                  dead although the frontend is still draining: restart re-initialises    *)
(*                  the object under the old frontend (`oldfront`), which then delivers a   *)
(*                  result of the old incarnation into the NEW results pipe                 *)
(*   TermOwnTimeout FALSE: terminate() gets restart's (short) timeout instead of its own    *)
(*                  grace: a child that would stop in time is declared unstoppable          *)
(* Settle = TRUE: a new call is issued only when the child is quiescent (what the replay    *)
(* driver enforces with hang-bounded waits on OS-visible facts); FALSE: every interleaving. *)
EXTENDS Naturals, Sequences, FiniteSets, TLC, PersistentProps

CONSTANTS Kinds, DTypes, DArgsSet, DKwSet, Shapes, Ops, MaxSteps, MaxEnq, MaxRestarts,
          Settle, Hist, AllowBlock, TupleFix, CounterFirst, FreshPipe, ResetClosed, BlockAfterClose,
          BusyTicks, SlowTicks, WaitT, TermT, WaitTruthful, TermOwnTimeout, ClosedGuard,
          EnqChecksAlive, WaitSwallowsBadResult, AliveAsksServer, IterExact, OwnRunScn, RestartKeepsRun

VARIABLES kind, dtype, dargs, dkw,               \* scenario
          ppc, pend, closed, pdead, late,        \* parent: pc, call in progress, _closed, _dead, "after close/death"
          cpc, cur, val, counter, cres, apend,   \* child: pc, item, value, _counter, outcome, async exception pending
          argsQ, resQ,                           \* channels
          I, done,                               \* observation record of the current / finished incarnations
          steps, nenq, nrst, h,
          busyleft, front, fmsg, sockQ, frontleft, tleft, oldfront   \* timed parties (see above)
timev == <<busyleft, front, fmsg, sockQ, frontleft, tleft, oldfront>>
vars == <<kind, dtype, dargs, dkw, ppc, pend, closed, pdead, late, cpc, cur, val, counter, cres, apend,
          argsQ, resQ, I, done, steps, nenq, nrst, h, timev>>
scnv == <<kind, dtype, dargs, dkw>>
childv == <<cpc, cur, val, counter, cres, apend>>

Marks == <<"x1", "x2", "x3", "x4", "x5", "x6", "x7", "x8", "x9">>
Nil == [t |-> "nil", a |-> <<>>, kw |-> <<>>]
NoneItem == [a |-> <<"@release">>, kw |-> <<>>]
NoItem == [a |-> <<>>, kw |-> <<>>]
\* a shape is [n |-> number of positional args, kw |-> keyword args, sp |-> "no" | a special first argument]
MkItem(s, ord) == [a |-> IF s.n = 0 THEN <<>>
                         ELSE <<IF s.sp = "no" THEN Marks[ord] ELSE s.sp>> \o SubSeq(<<"y2", "y3", "y4">>, 1, s.n - 1),
                   kw |-> s.kw]
IsStuck(it) == Len(it.a) > 0 /\ it.a[1] = "@stuck"
IsRaise(it) == Len(it.a) > 0 /\ it.a[1] = "@raise"
IsBusy(it) == Len(it.a) > 0 /\ it.a[1] = "@busy"
IsSlowRes(it) == Len(it.a) > 0 /\ it.a[1] = "@slowres"
IsLinger(it) == Len(it.a) > 0 /\ it.a[1] = "@linger"
FaultOf(it) == IF IsStuck(it) THEN "stuck" ELSE IF IsRaise(it) THEN "poison" ELSE IF IsBusy(it) THEN "busy"
               ELSE IF IsSlowRes(it) THEN "slowres" ELSE IF IsLinger(it) THEN "linger" ELSE "none"

\* what the target returns
Target(a, kw) == IF IsSpecial(a) THEN [t |-> SpecTag(a[1]), a |-> <<>>, kw |-> <<>>]
                 ELSE [t |-> "echo", a |-> a, kw |-> kw]
KwSeq(d, x) == SelectSeq(d, LAMBDA p : p[1] \notin Keys(x)) \o x

NoPend == [op |-> "none", k |-> 0, nread |-> 0, late |-> "F", pre |-> <<"F", "idle", 0>>]
FreshInc(id) == [enq |-> <<>>, raw |-> <<>>, late |-> <<>>, calls |-> <<>>, bempty |-> <<>>, hung |-> <<>>, got |-> <<>>, first |-> "none", alive0 |-> "T",
                 waited |-> "none", result |-> [k |-> "na", n |-> 0], fault |-> "none", id |-> id,
                 name |-> "nm", userid |-> "u", endk |-> "final", oldos |-> "na", rraised |-> <<>>]

Init == /\ kind \in Kinds /\ dtype \in DTypes /\ dargs \in DArgsSet /\ dkw \in DKwSet
        /\ ppc = "ready" /\ pend = NoPend
        /\ closed = FALSE /\ pdead = FALSE /\ late = FALSE
        /\ cpc = "recv" /\ cur = NoItem /\ val = Nil /\ counter = 0 /\ cres = "none" /\ apend = FALSE
        /\ argsQ = <<>> /\ resQ = <<>>
        /\ I = FreshInc(1) /\ done = <<>>
        /\ steps = 0 /\ nenq = 0 /\ nrst = 0 /\ h = <<>>
        /\ busyleft = 0 /\ front = "idle" /\ fmsg = [c |-> 0, f |-> "F", v |-> Nil] /\ sockQ = <<>> /\ frontleft = 0
        /\ tleft = 0 /\ oldfront = [st |-> "none", msg |-> [c |-> 0, f |-> "F", v |-> Nil]]

\* ------------------------------------------------------------------ helpers ----
Alive == ~pdead /\ (cpc # "dead" \/ front = "slow")   \* what is_alive() returns now (remote: the frontend counts)
FullDead == cpc = "dead" /\ front # "slow"
\* a busy target / a slow frontend is around (or queued): the ordinary calls are not issued meanwhile
Timed == \/ cpc = "busy" \/ front = "slow" \/ oldfront.st = "slow" \/ cpc = "linger"
         \/ (cpc \in {"run", "send"} /\ (IsBusy(cur) \/ IsSlowRes(cur)))
         \/ \E k \in 1..Len(argsQ) : IsBusy(argsQ[k]) \/ IsSlowRes(argsQ[k])
\* steps that take no time are pending: no tick, no timeout before they are done
InstantPending == \/ cpc \in {"run", "send", "cleanup", "exiting"} \/ (cpc = "recv" /\ argsQ # <<>>)
                  \/ (cpc = "busy" /\ busyleft = 0) \/ (front = "slow" /\ frontleft = 0)
                  \/ (oldfront.st = "slow" /\ frontleft = 0)
SeeDeath == pdead' = (pdead \/ cpc = "dead")       \* is_alive() caches a death it sees
Quiet == cpc \in {"dead", "stuck", "linger"} \/ (cpc = "recv" /\ argsQ = <<>>)
HasStuck == \/ cpc = "stuck" \/ (cpc = "run" /\ IsStuck(cur))
            \/ I.fault = "linger"          \* its process never exits by itself: nothing that joins it without a time limit
            \/ \E k \in 1..Len(argsQ) : IsStuck(argsQ[k])
CanCall == ppc = "ready" /\ steps < MaxSteps /\ (Settle => Quiet) /\ ~Timed
BoolStr(b) == IF b THEN "T" ELSE "F"
\* what the replay driver must establish before issuing a call (the settled state the call starts in)
\* <<results readable?, child state, number of readable results>>
Pre == <<BoolStr(resQ # <<>>),
         IF front = "slow" THEN "slow" ELSE IF cpc = "dead" THEN "dead" ELSE IF cpc = "stuck" THEN "stuck"
         ELSE IF cpc = "busy" THEN "busy" ELSE IF cpc = "linger" THEN "linger" ELSE "idle", Len(resQ)>>
LogP(op, out, pre) == /\ h' = (IF Hist THEN Append(h, <<op, out, pre[1], pre[2], pre[3]>>) ELSE h)
                      /\ steps' = steps + 1
Log(op, out) == LogP(op, out, Pre)
NRead == Len(Valid(I.raw))

\* close() / _release_child(): thread and remote return early on a dead worker, process does not
CloseEff(al) == IF closed \/ (kind # "process" /\ ~al) THEN UNCHANGED <<closed, argsQ>>
                ELSE /\ closed' = TRUE
                     /\ argsQ' = (IF cpc = "dead" THEN argsQ ELSE Append(argsQ, NoneItem))

\* ------------------------------------------------------------------ parent API ----
DoEnqG(op, it, guard) ==
   /\ guard /\ nenq < MaxEnq
   /\ LET ok == (IF EnqChecksAlive \/ kind # "remote" THEN Alive ELSE ~pdead) /\ ~closed
          out == IF ok THEN "ok"
                 ELSE IF ~ClosedGuard /\ kind = "process" /\ Alive /\ closed THEN "raised:OSError" ELSE "WCE"
          lateN == late \/ cpc = "dead"      \* after close()/wait(), after an observed death, or the child IS dead
      IN /\ argsQ' = (IF ok THEN Append(argsQ, it) ELSE argsQ)
         /\ I' = [I EXCEPT !.enq = (IF ok THEN Append(@, it) ELSE @),
                           !.late = (IF lateN THEN Append(@, out) ELSE @),
                           !.first = (IF @ = "none" /\ ~lateN THEN out ELSE @),
                           !.fault = (IF ok /\ @ = "none" THEN FaultOf(it) ELSE @)]
         /\ Log(op, out)
   /\ SeeDeath /\ nenq' = nenq + 1
   /\ UNCHANGED <<scnv, ppc, pend, closed, late, childv, resQ, done, nrst>>

DoEnq(op, it) == DoEnqG(op, it, CanCall)
\* an input queued behind a busy target (lost when the worker is restarted)
ApiEnqBehindBusy == /\ "enq" \in Ops /\ cpc = "busy" /\ busyleft = BusyTicks /\ oldfront.st = "none"
                    /\ \E s \in Shapes : DoEnqG("enq", MkItem(s, nenq + 1), ppc = "ready" /\ steps < MaxSteps)
ApiEnq == "enq" \in Ops /\ \E s \in Shapes : DoEnq("enq", MkItem(s, nenq + 1))
ApiEnqRaise == "enq@raise" \in Ops /\ I.fault = "none" /\ DoEnq("enq@raise", [a |-> <<"@raise">>, kw |-> <<>>])
ApiEnqStuck == "enq@stuck" \in Ops /\ I.fault = "none" /\ DoEnq("enq@stuck", [a |-> <<"@stuck">>, kw |-> <<>>])

ApiClose == /\ "close" \in Ops /\ CanCall
            /\ CloseEff(Alive) /\ SeeDeath /\ late' = TRUE
            /\ Log("close", "ok")
            /\ UNCHANGED <<scnv, ppc, pend, childv, resQ, I, done, nenq, nrst>>

ApiAlive == /\ "alive" \in Ops /\ CanCall
            /\ SeeDeath /\ late' = (late \/ ~Alive)
            /\ Log("alive", BoolStr(Alive))
            /\ UNCHANGED <<scnv, ppc, pend, closed, childv, argsQ, resQ, I, done, nenq, nrst>>

\* pop one message from the results channel into the observation; out is "val" or "Empty" (end marker)
PopOut == IF Head(resQ).f = "T" THEN "val" ELSE "End"
GotAdd(g, m) == IF m.f = "T" THEN Append(g, m.v) ELSE g
Vals(s) == [k \in 1..Len(Valid(s)) |-> Valid(s)[k].v]

ApiNextNB == /\ "nextnb" \in Ops /\ CanCall
             /\ IF resQ = <<>>
                THEN /\ Log("nextnb", "Empty") /\ UNCHANGED <<resQ, I>>
                ELSE /\ Log("nextnb", PopOut)
                     /\ resQ' = Tail(resQ) /\ I' = [I EXCEPT !.raw = Append(@, Head(resQ)), !.got = GotAdd(@, Head(resQ))]
             /\ SeeDeath
             /\ UNCHANGED <<scnv, ppc, pend, closed, late, childv, argsQ, done, nenq, nrst>>

\* the next message is certain to come (or the worker is dead and the get is non-blocking)
Produces == \/ resQ # <<>> \/ ~Alive
            \/ cpc \in {"send", "cleanup"}
            \/ (cpc = "run" /\ ~IsStuck(cur))
            \/ (cpc = "recv" /\ argsQ # <<>> /\ ~IsStuck(Head(argsQ)))
ApiNextBHang == /\ AllowBlock /\ "nextb" \in Ops /\ CanCall /\ ~Produces
                /\ cpc \in {"recv", "exiting", "stuck"} /\ (cpc = "recv" => argsQ = <<>>)
                /\ ppc' = "hung" /\ Log("nextb", "hang")
                /\ I' = [I EXCEPT !.hung = Append(@, "nextb")]
                /\ UNCHANGED <<scnv, pend, closed, pdead, late, childv, argsQ, resQ, done, nenq, nrst>>
\* the wrong variant: a closed (not necessarily dead) worker is read without blocking
ApiNextBClosed == /\ ~BlockAfterClose /\ "nextb" \in Ops /\ CanCall /\ closed
                  /\ IF resQ = <<>>
                     THEN /\ Log("nextb", "Empty") /\ UNCHANGED resQ
                          /\ I' = [I EXCEPT !.bempty = Append(@, [nread |-> NRead, nenq |-> Len(I.enq)])]
                     ELSE /\ Log("nextb", PopOut)
                          /\ resQ' = Tail(resQ)
                          /\ I' = [I EXCEPT !.raw = Append(@, Head(resQ)), !.got = GotAdd(@, Head(resQ)),
                                            !.bempty = (IF Head(resQ).f = "F" THEN Append(@, [nread |-> NRead, nenq |-> Len(I.enq)]) ELSE @)]
                  /\ SeeDeath
                  /\ UNCHANGED <<scnv, ppc, pend, closed, late, childv, argsQ, done, nenq, nrst>>
\* a blocking read of one result: next_result() or list(results_iter(maxitems=1))
ApiNextBOp(op) == /\ op \in Ops /\ CanCall /\ Produces /\ (BlockAfterClose \/ ~closed)
            /\ ppc' = "next" /\ SeeDeath /\ pend' = [pend EXCEPT !.pre = Pre, !.op = op]
            /\ UNCHANGED <<scnv, closed, late, childv, argsQ, resQ, I, done, steps, nenq, nrst, h>>
ApiNextB == ApiNextBOp("nextb") \/ ApiNextBOp("iter1")
NextEnd == /\ ppc = "next" /\ (resQ # <<>> \/ cpc = "dead")
           /\ IF resQ = <<>>
              THEN /\ LogP(pend.op, "Empty", pend.pre) /\ UNCHANGED resQ
                   /\ I' = [I EXCEPT !.bempty = Append(@, [nread |-> NRead, nenq |-> Len(I.enq)])]
              ELSE IF ~IterExact /\ pend.op = "iter1" /\ Len(resQ) >= 2 /\ Head(resQ).f = "T"
              THEN \* the wrong variant: the next result is read as well and thrown away
                   /\ LogP(pend.op, "val", pend.pre)
                   /\ resQ' = Tail(Tail(resQ))
                   /\ I' = [I EXCEPT !.raw = Append(Append(@, resQ[1]), resQ[2]), !.got = Append(@, resQ[1].v)]
              ELSE /\ LogP(pend.op, PopOut, pend.pre)
                   /\ resQ' = Tail(resQ)
                   /\ I' = [I EXCEPT !.raw = Append(@, Head(resQ)), !.got = GotAdd(@, Head(resQ)),
                                     !.bempty = (IF Head(resQ).f = "F" THEN Append(@, [nread |-> NRead, nenq |-> Len(I.enq)]) ELSE @)]
           /\ ppc' = "ready"
           /\ UNCHANGED <<scnv, pend, closed, pdead, late, childv, argsQ, done, nenq, nrst>>

ApiCall == /\ "call" \in Ops /\ CanCall /\ nenq < MaxEnq /\ ~HasStuck
           /\ \E s \in Shapes : LET it == MkItem(s, nenq + 1) ok == Alive /\ ~closed IN
                IF ok
                THEN /\ argsQ' = Append(argsQ, it)
                     /\ I' = [I EXCEPT !.enq = Append(@, it), !.first = (IF @ = "none" /\ ~late THEN "ok" ELSE @)]
                     /\ pend' = [op |-> "call", k |-> Len(I.enq) + 1, nread |-> NRead, late |-> BoolStr(late \/ cpc = "dead"), pre |-> Pre]
                     /\ ppc' = "call"
                     /\ UNCHANGED <<steps, h>>
                ELSE /\ I' = [I EXCEPT !.calls = Append(@, [k |-> 0, out |-> "WCE", v |-> Nil, nread |-> NRead, late |-> BoolStr(late \/ cpc = "dead")]),
                                       !.late = (IF late \/ cpc = "dead" THEN Append(@, "WCE") ELSE @),
                                       !.first = (IF @ = "none" /\ ~(late \/ cpc = "dead") THEN "WCE" ELSE @)]
                     /\ Log("call", "WCE")
                     /\ UNCHANGED <<argsQ, pend, ppc>>
           /\ SeeDeath /\ nenq' = nenq + 1
           /\ UNCHANGED <<scnv, closed, late, childv, resQ, done, nrst>>
CallEnd == /\ ppc = "call" /\ (resQ # <<>> \/ cpc = "dead")
           /\ LET got == resQ # <<>>
                  out == IF got THEN PopOut ELSE "Empty"
                  v == IF got /\ Head(resQ).f = "T" THEN Head(resQ).v ELSE Nil
              IN /\ I' = [I EXCEPT !.raw = (IF got THEN Append(@, Head(resQ)) ELSE @),
                                   !.got = (IF got THEN GotAdd(@, Head(resQ)) ELSE @),
                                   !.calls = Append(@, [k |-> pend.k, out |-> out, v |-> v, nread |-> pend.nread, late |-> pend.late])]
                 /\ resQ' = (IF got THEN Tail(resQ) ELSE resQ)
                 /\ LogP("call", out, pend.pre)
           /\ ppc' = "ready"
           /\ UNCHANGED <<scnv, pend, closed, pdead, late, childv, argsQ, done, nenq, nrst>>

\* wait(): close, then join
ApiWait == /\ "wait" \in Ops /\ CanCall /\ ~HasStuck
           /\ late' = TRUE
           /\ IF Alive
              THEN /\ CloseEff(TRUE) /\ ppc' = "wait" /\ pend' = [pend EXCEPT !.pre = Pre] /\ UNCHANGED <<pdead, steps, h>>
              ELSE /\ SeeDeath /\ Log("wait", "T") /\ UNCHANGED <<closed, argsQ, ppc, pend>>
           /\ UNCHANGED <<scnv, childv, resQ, I, done, nenq, nrst>>
WaitEnd == /\ ppc = "wait" /\ cpc = "dead"
           /\ pdead' = TRUE /\ ppc' = "ready" /\ LogP("wait", "T", pend.pre)
           /\ UNCHANGED <<scnv, pend, closed, late, childv, argsQ, resQ, I, done, nenq, nrst>>
\* wait(timeout) on an uncooperative target: closes, times out
ApiWaitT == /\ "waitT" \in Ops /\ CanCall /\ cpc = "stuck"
            /\ CloseEff(TRUE) /\ late' = TRUE /\ Log("waitT", "F")
            /\ UNCHANGED <<scnv, ppc, pend, pdead, childv, resQ, I, done, nenq, nrst>>

\* terminate(): asynchronous WorkerTerminatedError in the child, release, join
ApiTerm == /\ "term" \in Ops /\ CanCall /\ ~HasStuck /\ I.fault = "none"
           /\ late' = TRUE
           /\ I' = [I EXCEPT !.fault = "term"]
           /\ IF Alive
              THEN /\ CloseEff(TRUE) /\ apend' = TRUE /\ ppc' = "term" /\ pend' = [pend EXCEPT !.pre = Pre] /\ UNCHANGED <<pdead, steps, h>>
              ELSE /\ SeeDeath /\ Log("term", "T") /\ UNCHANGED <<closed, argsQ, ppc, apend, pend>>
           /\ UNCHANGED <<scnv, cpc, cur, val, counter, cres, resQ, done, nenq, nrst>>
TermEnd == /\ ppc = "term" /\ cpc = "dead"
           /\ pdead' = TRUE /\ ppc' = "ready" /\ LogP("term", "T", pend.pre)
           /\ UNCHANGED <<scnv, pend, closed, late, childv, argsQ, resQ, I, done, nenq, nrst>>

\* SIGKILL of the child process (process / remote): no cleanup; the remote frontend sees the
\* connection close and signals the end of the partial results itself
EndMarker == [c |-> counter, f |-> "F", v |-> Nil]
ApiKill == /\ "kill" \in Ops /\ CanCall /\ kind # "thread" /\ cpc # "dead" /\ I.fault = "none" /\ ~HasStuck
           /\ cpc' = "dead" /\ apend' = FALSE /\ late' = TRUE
           /\ resQ' = (IF kind = "remote" /\ cpc \notin {"exiting"} THEN Append(resQ, EndMarker) ELSE resQ)
           /\ I' = [I EXCEPT !.fault = "kill"]
           /\ Log("kill", "ok")
           /\ UNCHANGED <<scnv, ppc, pend, closed, pdead, cur, val, counter, cres, argsQ, done, nenq, nrst>>

\* the driver lets an uncooperative target return
ApiRelease == /\ CanCall /\ cpc = "stuck"
              /\ cpc' = "send" /\ val' = Target(cur.a, <<>>)
              /\ Log("release", "ok")
              /\ UNCHANGED <<scnv, ppc, pend, closed, pdead, late, cur, counter, cres, apend, argsQ, resQ, I, done, nenq, nrst>>

\* __dict__.clear(); __init__(..., results_pipe=..., _is_restart=True)
ReinitO(op, pre, os) ==
   /\ done' = Append(done, [I EXCEPT !.endk = "restarted", !.oldos = os])
   /\ I' = (IF OwnRunScn /\ ~RestartKeepsRun THEN [FreshInc(I.id + 1) EXCEPT !.alive0 = "F"] ELSE FreshInc(I.id + 1))
   /\ closed' = (IF ResetClosed THEN FALSE ELSE closed)
   /\ pdead' = FALSE /\ late' = FALSE
   /\ cpc' = (IF OwnRunScn /\ ~RestartKeepsRun THEN "dead" ELSE "recv") /\ cur' = NoItem /\ val' = Nil /\ counter' = 0 /\ cres' = "none" /\ apend' = FALSE
   /\ argsQ' = <<>>
   /\ resQ' = (IF FreshPipe THEN <<>> ELSE resQ)
   /\ ppc' = "ready" /\ nrst' = nrst + 1
   /\ LogP(op, "ok", pre)
   /\ pend' = NoPend
   /\ UNCHANGED <<scnv, nenq>>
Reinit(op, pre) == ReinitO(op, pre, "dead")

\* restart() / restart(results_pipe=Pipe()) with timeout=None
ApiRestart(op) ==
   /\ op \in Ops /\ CanCall /\ nrst < MaxRestarts /\ ~HasStuck
   /\ IF Alive
      THEN /\ CloseEff(TRUE) /\ ppc' = "rst" /\ pend' = [pend EXCEPT !.op = op, !.pre = Pre]
           /\ UNCHANGED <<scnv, pdead, late, childv, resQ, I, done, steps, nenq, nrst, h>>
      ELSE Reinit(op, Pre)
BadFinal == ~WaitSwallowsBadResult /\ kind = "process" /\ cres = "err"
RstEnd == /\ ppc = "rst" /\ cpc = "dead" /\ ~BadFinal /\ Reinit(pend.op, pend.pre)
\* the wrong variant: the exception of rebuilding the child's last message escapes from wait(), hence from restart()
RstEndRaise == /\ ppc = "rst" /\ cpc = "dead" /\ BadFinal
               /\ I' = [I EXCEPT !.rraised = Append(@, [still |-> "T"])]
               /\ late' = TRUE /\ ppc' = "ready" /\ LogP(pend.op, "raised:TypeError", pend.pre)
               /\ UNCHANGED <<scnv, pend, closed, pdead, childv, argsQ, resQ, done, nenq, nrst>>

\* restart(timeout=t[, force=False]) on an uncooperative target: wait times out, terminate();
\* a thread (or force=False) cannot be stopped: RuntimeError, nothing replaced;
\* process / remote with force: the child is killed and replaced
ApiRestartT(op) ==
   /\ op \in Ops /\ CanCall /\ nrst < MaxRestarts /\ cpc = "stuck"
   /\ (op = "restartTnf" => kind # "thread")
   /\ IF kind = "thread" \/ op = "restartTnf"
      THEN /\ CloseEff(TRUE) /\ late' = TRUE
           /\ I' = [I EXCEPT !.rraised = Append(@, [still |-> "T"])]
           /\ Log(op, "raised:RuntimeError")
           /\ UNCHANGED <<scnv, ppc, pend, pdead, childv, resQ, done, nenq, nrst>>
      ELSE Reinit(op, Pre)

\* end of the history: wait(), read worker.result, drain the results endpoint
Finish == /\ ppc = "ready" /\ (Settle => Quiet) /\ ~HasStuck /\ ~Timed
          /\ CloseEff(Alive) /\ ppc' = "fin"
          /\ UNCHANGED <<scnv, pend, pdead, late, childv, resQ, I, done, steps, nenq, nrst, h>>
FinEnd == /\ ppc = "fin" /\ cpc = "dead"
          /\ I' = [I EXCEPT !.waited = "T",
                            !.result = (IF cres = "v" THEN [k |-> "val", n |-> counter] ELSE [k |-> "none", n |-> 0]),
                            !.raw = @ \o resQ, !.got = @ \o Vals(resQ)]
          /\ resQ' = <<>> /\ pdead' = TRUE /\ ppc' = "done"
          /\ UNCHANGED <<scnv, pend, closed, late, childv, argsQ, done, steps, nenq, nrst, h>>

\* ------------------------------------------------------------------ child ----
parentv == <<ppc, pend, closed, pdead, late, I, done, steps, nenq, nrst, h>>

CRecv == /\ cpc = "recv" /\ argsQ # <<>>
         /\ argsQ' = Tail(argsQ)
         /\ LET it == Head(argsQ) IN
            IF apend THEN /\ cpc' = "cleanup" /\ cres' = "err" /\ apend' = FALSE /\ UNCHANGED cur
            ELSE IF it = NoneItem THEN /\ cpc' = "cleanup" /\ cres' = "v" /\ UNCHANGED <<cur, apend>>
            ELSE IF ~TupleFix /\ dtype = "tuple" /\ dargs # <<>>
                 THEN /\ cpc' = "cleanup" /\ cres' = "err" /\ UNCHANGED <<cur, apend>>     \* TypeError in the merge
                 ELSE /\ cpc' = "run" /\ cur' = it /\ UNCHANGED <<cres, apend>>
         /\ UNCHANGED <<scnv, parentv, val, counter, resQ>>
CRun == /\ cpc = "run"
        /\ IF apend THEN cpc' = "cleanup" /\ cres' = "err" /\ apend' = FALSE /\ UNCHANGED val
           ELSE IF IsRaise(cur) THEN cpc' = "cleanup" /\ cres' = "err" /\ UNCHANGED <<val, apend>>
           ELSE IF IsStuck(cur) THEN cpc' = "stuck" /\ UNCHANGED <<val, cres, apend>>
           ELSE IF IsBusy(cur) THEN cpc' = "busy" /\ UNCHANGED <<val, cres, apend>>
           ELSE /\ cpc' = "send" /\ val' = Target(Merge(dargs, cur.a), KwSeq(dkw, cur.kw))
                /\ UNCHANGED <<cres, apend>>
        /\ busyleft' = (IF ~apend /\ IsBusy(cur) THEN BusyTicks ELSE busyleft)
        /\ UNCHANGED <<scnv, parentv, cur, counter, argsQ, resQ, front, fmsg, sockQ, frontleft, tleft, oldfront>>
\* the blocking step of a busy target ends: a pending asynchronous exception surfaces now
BusyEnd == /\ cpc = "busy" /\ busyleft = 0
           /\ IF apend THEN cpc' = "cleanup" /\ cres' = "err" /\ apend' = FALSE /\ UNCHANGED val
              ELSE cpc' = "send" /\ val' = Target(cur.a, <<>>) /\ UNCHANGED <<cres, apend>>
           /\ UNCHANGED <<scnv, parentv, cur, counter, argsQ, resQ, timev>>
CSend == /\ cpc = "send" /\ front # "slow"
         /\ counter' = counter + 1
         /\ LET m == [c |-> (IF CounterFirst THEN counter + 1 ELSE counter), f |-> "T", v |-> val] IN
            IF kind = "remote" /\ val.t = "slow"
            THEN /\ front' = "slow" /\ fmsg' = m /\ frontleft' = SlowTicks /\ UNCHANGED resQ   \* the frontend starts rebuilding it
            ELSE /\ resQ' = Append(resQ, m) /\ UNCHANGED <<front, fmsg, frontleft>>
         /\ cpc' = "recv"
         /\ UNCHANGED <<scnv, parentv, cur, val, cres, apend, argsQ, busyleft, sockQ, tleft, oldfront>>
CCleanup == /\ cpc = "cleanup"
            /\ IF front = "slow" THEN sockQ' = Append(sockQ, EndMarker) /\ UNCHANGED resQ      \* queues behind the slow message
               ELSE resQ' = Append(resQ, EndMarker) /\ UNCHANGED sockQ
            /\ cpc' = "exiting"
            /\ UNCHANGED <<scnv, parentv, cur, val, counter, cres, apend, argsQ, busyleft, front, fmsg, frontleft, tleft, oldfront>>
\* the frontend has rebuilt the message: it and everything that arrived behind it reach the results pipe
FrontDeliver == /\ front = "slow" /\ frontleft = 0
                /\ resQ' = Append(resQ, fmsg) \o sockQ /\ sockQ' = <<>> /\ front' = "idle"
                /\ UNCHANGED <<scnv, parentv, childv, argsQ, busyleft, fmsg, frontleft, tleft, oldfront>>
\* an abandoned frontend of the previous incarnation: it looks up the results pipe through the re-initialised
\* object, delivers its old message there and dies (assert wid == self.id)
OldFrontDeliver == /\ oldfront.st = "slow" /\ frontleft = 0
                   /\ resQ' = Append(resQ, oldfront.msg) /\ oldfront' = [oldfront EXCEPT !.st = "none"]
                   /\ UNCHANGED <<scnv, parentv, childv, argsQ, busyleft, front, fmsg, sockQ, frontleft, tleft>>
Dec(n) == IF n > 0 THEN n - 1 ELSE 0
Tick == /\ ~InstantPending
        /\ \/ (ppc \in {"k_wait", "k_term"} /\ tleft > 0)
           \/ (ppc = "ready" /\ (cpc = "busy" \/ front = "slow" \/ oldfront.st = "slow"))
        /\ tleft' = Dec(tleft) /\ busyleft' = Dec(busyleft) /\ frontleft' = Dec(frontleft)
        /\ UNCHANGED <<scnv, parentv, childv, argsQ, resQ, front, fmsg, sockQ, oldfront>>
CExit == /\ cpc = "exiting" /\ cpc' = (IF kind = "remote" /\ I.fault = "linger" THEN "linger" ELSE "dead")
         /\ UNCHANGED <<scnv, parentv, cur, val, counter, cres, apend, argsQ, resQ>>
Child == (CRecv /\ UNCHANGED timev) \/ CRun \/ CSend \/ CCleanup \/ (CExit /\ UNCHANGED timev) \/ BusyEnd \/ FrontDeliver \/ OldFrontDeliver

\* ------------------------------------------------------------------ restart(timeout=t) against time ----
ApiEnqBusy == "enq@busy" \in Ops /\ I.fault = "none" /\ DoEnq("enq@busy", [a |-> <<"@busy">>, kw |-> <<>>])
ApiEnqLinger == "enq@linger" \in Ops /\ kind = "remote" /\ I.fault = "none" /\ DoEnq("enq@linger", [a |-> <<"@linger">>, kw |-> <<>>])
ApiEnqSlow == "enq@slow" \in Ops /\ kind = "remote" /\ I.fault = "none" /\ DoEnq("enq@slow", [a |-> <<"@slowres">>, kw |-> <<>>])
FreshTimed == \/ (cpc = "busy" /\ busyleft = BusyTicks) \/ (cpc = "linger" /\ front = "idle")
              \/ (front = "slow" /\ frontleft = SlowTicks /\ cpc = "recv" /\ argsQ = <<>>)
ResetTimed == /\ busyleft' = 0 /\ front' = "idle" /\ sockQ' = <<>> /\ tleft' = 0 /\ UNCHANGED <<fmsg, frontleft, oldfront>>
\* restart(timeout=t) / restart(timeout=t, results_pipe=Pipe()), as Pool.restart_workers calls it
ApiRestartK(op) ==
   /\ op \in Ops /\ ppc = "ready" /\ steps < MaxSteps /\ nrst < MaxRestarts /\ FreshTimed /\ oldfront.st = "none"
   /\ IF ~AliveAsksServer /\ cpc = "linger"
      THEN \* the final result is in: the worker is taken for dead, the object re-initialised, the process abandoned
           ReinitO(op, Pre, "alive") /\ ResetTimed
      ELSE /\ CloseEff(TRUE) /\ ppc' = "k_wait" /\ tleft' = WaitT /\ pend' = [pend EXCEPT !.op = op, !.pre = Pre]
           /\ UNCHANGED <<scnv, pdead, late, childv, resQ, I, done, steps, nenq, nrst, h, busyleft, front, fmsg, sockQ, frontleft, oldfront>>
KDone == /\ ppc \in {"k_wait", "k_term"} /\ FullDead
         /\ Reinit(pend.op, pend.pre) /\ ResetTimed
\* wait(t) timed out
KWaitTimeout ==
   /\ ppc = "k_wait" /\ tleft = 0 /\ ~InstantPending /\ ~FullDead
   /\ IF ~WaitTruthful /\ kind = "remote" /\ cpc = "dead"
      THEN \* wait() claims success: the object is re-initialised under the old, still draining frontend
           /\ ReinitO(pend.op, pend.pre, "alive")
           /\ oldfront' = [st |-> "slow", msg |-> fmsg]
           /\ busyleft' = 0 /\ front' = "idle" /\ sockQ' = <<>> /\ tleft' = 0 /\ UNCHANGED <<fmsg, frontleft>>
      ELSE \* terminate(): asynchronous exception for the child, then join with terminate's own grace
           /\ apend' = (cpc # "dead") /\ ppc' = "k_term" /\ tleft' = (IF TermOwnTimeout THEN TermT ELSE WaitT)
           /\ UNCHANGED <<scnv, pend, closed, pdead, late, cpc, cur, val, counter, cres, argsQ, resQ, I, done, steps, nenq, nrst, h,
                           busyleft, front, fmsg, sockQ, frontleft, oldfront>>
\* terminate() timed out as well: a thread cannot be forced - RuntimeError, nothing replaced; a process is killed
KTermTimeout ==
   /\ ppc = "k_term" /\ tleft = 0 /\ ~InstantPending /\ ~FullDead
   /\ IF kind = "thread"
      THEN /\ I' = [I EXCEPT !.rraised = Append(@, [still |-> "T"])]
           /\ late' = TRUE /\ ppc' = "ready"
           /\ LogP(pend.op, "raised:RuntimeError", pend.pre)
           /\ UNCHANGED <<scnv, pend, closed, pdead, childv, argsQ, resQ, done, nenq, nrst, timev>>
      ELSE Reinit(pend.op, pend.pre) /\ ResetTimed
\* terminate(force=True) stops a lingering process within its grace
KTermKill == /\ ppc = "k_term" /\ cpc = "linger" /\ cpc' = "dead"
             /\ UNCHANGED <<scnv, parentv, cur, val, counter, cres, apend, argsQ, resQ, timev>>
Timedv == KTermKill \/ ApiRestartK("restartK") \/ ApiRestartK("restartKP") \/ KDone \/ KWaitTimeout \/ KTermTimeout \/ Tick

Parent == \/ ApiEnq \/ ApiEnqRaise \/ ApiEnqStuck \/ ApiClose \/ ApiAlive \/ ApiNextNB \/ ApiNextB \/ ApiNextBClosed \/ ApiNextBHang \/ NextEnd
          \/ ApiCall \/ CallEnd \/ ApiWait \/ WaitEnd \/ ApiWaitT \/ ApiTerm \/ TermEnd \/ ApiKill \/ ApiRelease
          \/ ApiRestart("restart") \/ ApiRestart("restartP") \/ RstEnd \/ RstEndRaise
          \/ ApiRestartT("restartT") \/ ApiRestartT("restartTnf")
          \/ Finish \/ FinEnd \/ ApiEnqBusy \/ ApiEnqSlow \/ ApiEnqLinger \/ ApiEnqBehindBusy
Next == (Parent /\ UNCHANGED timev) \/ Child \/ Timedv
Spec == Init /\ [][Next]_vars /\ WF_vars(Child) /\ WF_vars((NextEnd \/ CallEnd \/ WaitEnd \/ TermEnd \/ RstEnd \/ FinEnd) /\ UNCHANGED timev) /\ WF_vars(Timedv)

\* ------------------------------------------------------------------ properties ----
Terminal == ppc = "done"
Rec == [scn |-> [kind |-> kind, dtype |-> dtype, dargs |-> dargs, dkw |-> dkw],
        obs |-> [incs |-> Append(done, I)]]

TypeOK == /\ front \in {"idle", "slow"} /\ oldfront.st \in {"none", "slow"} /\ busyleft <= BusyTicks /\ frontleft <= SlowTicks
          /\ ppc \in {"k_wait", "k_term", "hung", "ready", "next", "call", "wait", "term", "rst", "fin", "done"}
          /\ cpc \in {"recv", "run", "send", "stuck", "busy", "linger", "cleanup", "exiting", "dead"}
          /\ cres \in {"none", "v", "err"}
          /\ counter <= MaxEnq /\ Len(argsQ) <= MaxEnq + 1 /\ Len(resQ) <= MaxEnq + 1
Inv_C05_Stream == C05_Stream(Rec)
Inv_C05_Count  == Terminal => C05_Count(Rec)
Inv_C05_Closed == C05_Closed(Rec)
Inv_C05_Call   == C05_Call(Rec)
Inv_C05_End    == C05_End(Rec)
Inv_C05_Returns == C05_Returns(Rec)
Inv_C17_Returns == C17_Returns(Rec)
Inv_C17_Live          == C17_Live(Rec)
Inv_C17_Equivalent    == C17_Equivalent(Rec)
Inv_C17_NewIdentity   == C17_NewIdentity(Rec)
Inv_C17_FreshStream   == C17_FreshStream(Rec)
Inv_C17_CounterZero   == C17_CounterZero(Rec)
Inv_C17_RaisesNotAbandons == C17_RaisesNotAbandons(Rec)
\* a blocked caller is always released; every history can be finished
Live_Returns == [](ppc \in {"next", "call", "wait", "term", "rst", "fin"} => <>(ppc \in {"ready", "done"}))

\* ---- witnesses (expected to be violated: the antecedents are reachable) ----
W_NoFullStream == ~(Terminal /\ Len(I.enq) >= 2 /\ Len(Valid(I.raw)) = Len(I.enq) /\ I.waited = "T")
W_NoLate       == ~(Len(I.late) > 0)
W_NoCleanCall  == ~(\E j \in 1..Len(I.calls) : I.calls[j].out = "val")
W_NoEnqueueOnClosedRunning == ~(Len(I.late) > 0 /\ closed /\ cpc \in {"run", "send"} /\ ppc = "ready")
W_NoBlockingReadAfterClose == ~(ppc = "next" /\ closed /\ resQ = <<>> /\ cpc \in {"run", "send"})
W_NoLongerArgs == ~(\E k \in 1..Len(I.enq) : Len(I.enq[k].a) > Len(dargs) /\ Len(dargs) > 0 /\ Len(Valid(I.raw)) >= k)
W_NoRestartUnread == ~(Len(done) > 0 /\ Len(done[1].enq) > Len(Valid(done[1].raw)) /\ Len(Valid(I.raw)) > 0)
W_NoRestartRaised == ~(Len(I.rraised) > 0)
W_NoRestartKilled == ~(Len(done) > 0 /\ done[1].fault = "kill")
W_NoRestartOfLingering == ~(Len(done) > 0 /\ done[1].fault = "linger")
W_NoEnqueueOnUnobservedDead == ~(Len(I.late) > 0 /\ ~late /\ cpc = "dead")
W_NoRestartWhileChildDiesByError == ~(Len(done) > 0 /\ done[1].fault = "poison" /\ Len(done[1].late) = 0 /\ kind = "process")
W_NoTimedRestartOfBusy == ~(Len(done) > 0 /\ done[1].fault = "busy")
W_NoTimedRestartOfSlowFrontend == ~(Len(done) > 0 /\ done[1].fault = "slowres" /\ kind = "remote")
W_NoSecondRestart == ~(Len(done) >= 2)

\* ---- path dump for replay (Hist = TRUE): every complete API history once per outcome sequence ----
PathDump == (Terminal \/ ppc = "hung") => PrintT(<<"PATH", kind, ToString(h)>>)
=============================================================================
