---------------------------- MODULE FramingJudge ----------------------------
(* TLC as the judge of real executions: evaluates the C10 operators on records         *)
(* projected from runs of the real recv_msg.                                            *)
EXTENDS FramingProps, Json, IOUtils, TLC
Recs == JsonDeserialize(IOEnv.REC_FILE)
VARIABLE i
JInit == i \in 1..Len(Recs)
JNext == UNCHANGED i
Chk(name, ok) == ok \/ PrintT(<<"FAIL", Recs[i].id, name>>)
JInv == /\ Chk("C10_Roundtrip", C10_Roundtrip(Recs[i]))
        /\ Chk("C10_NoPartial", C10_NoPartial(Recs[i]))
        /\ Chk("C10_Detects", C10_Detects(Recs[i]))
        /\ Chk("C10_Prompt", C10_Prompt(Recs[i]))
=============================================================================
