---------------------------- MODULE PoolLifeMC ----------------------------
EXTENDS PoolLife, Json, IOUtils
FixAll == {"dupguard", "closedguard"}
FixNone == {}
FixNoDup == {"closedguard"}
FixNoClosed == {"dupguard"}
KindsTP == {"thread", "process"}
KindsP == {"process"}
KindsAll == {"thread", "process", "remote"}
FreeBoth == {[id |-> "free", force |-> f, ctimeout |-> t, ops |-> <<>>] : f \in {"none", "false"}, t \in {"small", "none"}}
FreeNone == {[id |-> "free", force |-> "none", ctimeout |-> "small", ops |-> <<>>]}
\* planned histories for replay: [{"id": "h0", "force": "none", "ops": ["add:process", "run", "close"]}, ...]
PlanSeq == JsonDeserialize(IOEnv.CASE_FILE)
PlanSet == {PlanSeq[i] : i \in 1..Len(PlanSeq)}
=============================================================================
