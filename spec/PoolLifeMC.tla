---------------------------- MODULE PoolLifeMC ----------------------------
EXTENDS PoolLife
FixAll == {"dupguard", "closedguard"}
FixNone == {}
FixNoDup == {"closedguard"}
FixNoClosed == {"dupguard"}
KindsTP == {"thread", "process"}
KindsP == {"process"}
KindsAll == {"thread", "process", "remote"}
ForcesAll == {"none", "false"}
ForcesNone == {"none"}
=============================================================================
