------------------------------ MODULE RegistryMC ------------------------------
EXTENDS Registry
T_one == {1}
T_two == {1, 2}
Ops_all == {"create", "die", "restart", "ac", "auto"}
Ops_noauto == {"create", "die", "restart", "ac"}
=============================================================================
