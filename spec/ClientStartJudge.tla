--------------------------- MODULE ClientStartJudge ---------------------------
(* TLC as the judge of real constructor executions (C20 operators).                       *)
EXTENDS ClientStartProps, Sequences, Json, IOUtils, TLC
Recs == JsonDeserialize(IOEnv.REC_FILE)
VARIABLE i
JInit == i \in 1..Len(Recs)
JNext == UNCHANGED i
Chk(name, ok) == ok \/ PrintT(<<"FAIL", Recs[i].id, name>>)
JInv == /\ Chk("C20_Returns", C20_Returns(Recs[i]))
        /\ Chk("C20_Usable", C20_Usable(Recs[i]))
        /\ Chk("C20_NoLeftover", C20_NoLeftover(Recs[i]))
        /\ Chk("C20_NotRegistered", C20_NotRegistered(Recs[i]))
=============================================================================
