------------------------------ MODULE Lifecycle ------------------------------
(* wait / terminate / is_alive / close of one worker, as written in pyworkers            *)
(* (thread.py, process.py, remote.py, persistent_*.py), against a child that may be       *)
(* cooperative, swallow every Exception, sit in one long system call, hold the            *)
(* interpreter lock inside C ("frozen": no Python thread of the child runs, default       *)
(* SIGTERM still kills), wait for input ("idle", persistent kinds), or be SIGSTOPped      *)
(* ("stopped": nothing runs, SIGTERM stays pending, SIGKILL kills).                       *)
(*                                                                                        *)
(* Parties: P  caller;  C child main thread;  K child control thread (process kind:       *)
(* _ctrl_fn; remote kind: _ctrl_fn_local);  R server-side remote control thread           *)
(* (_ctrl_fn_remote, runs terminate/wait/is_alive on the server's copy);  F frontend      *)
(* thread in P's process (_run_frontend/_fetch_results).                                  *)
(*                                                                                        *)
(* Every blocking primitive of P and R is a label.  It has a Timeout alternative exactly  *)
(* when the code passes a timeout: join(timeout) has one, the control-pipe get() of       *)
(* ProcessWorker.terminate (process.py:95) and recv_msg on the control socket have none.  *)
(* Time: a timeout of class "t" (small, but long compared to any computation step)        *)
(* expires only when no other party can take a step ("maximal progress"); a timeout of    *)
(* class "0" may expire at any moment.                                                    *)
(*                                                                                        *)
(* Target behaviour "linger": the target returns at once but leaves a non-daemon thread   *)
(* behind, so the child reports its result (and closes its pipes) while the PROCESS lives  *)
(* on for longer than any timeout of the history: child state cpc = "linger" (reported but *)
(* alive; default SIGTERM still kills).  ReportMeansDead = TRUE is the variant in which    *)
(* ProcessWorker.wait takes the arrival of the final message for the child's death         *)
(* (must be rejected by C04_Truthful).                                                     *)
(*                                                                                        *)
(* Target behaviour "slowres" (persistent remote kind): the child is idle, but the frontend *)
(* thread in the caller's process is busy for longer than any timeout (it is rebuilding a   *)
(* result): after the remote child has been terminated the WORKER is not dead yet.          *)
(* RemDeadMeansDead = TRUE is the variant in which RemoteWorker.terminate answers True as   *)
(* soon as the remote child is known to be gone (must be rejected by C04_Stable: a later    *)
(* is_alive()/wait() contradicts the True).                                                 *)
(*                                                                                        *)
(* "waitL": wait(timeout) with a LONG timeout (class "t" as well; longer than any deadline   *)
(* hidden in the machinery).  HiddenDeadline = TRUE: the control socket keeps the connect   *)
(* timeout of the handshake, so a control request that takes longer than it is read as      *)
(* "connection closed, child dead" (must be rejected by C04_Truthful: a later terminate      *)
(* answers True while the remote child runs).  StaleAliveAfterKill = TRUE: ProcessWorker.    *)
(* terminate does not re-read the child's liveness after kill() + join() (must be rejected   *)
(* by C04_Truthful: False although the child is dead at that moment).                        *)
(*                                                                                        *)
(* Target behaviour "unreb": the target ends by itself shortly after the start with an      *)
(* outcome that cannot be rebuilt on the parent side (an exception class whose constructor *)
(* needs arguments).  RebuildRaises = TRUE: ProcessWorker.wait lets the TypeError of the    *)
(* early receive of the final message escape (must be rejected by C04_Returns: a call must  *)
(* answer True/False).  CacheDeadOnFalse = TRUE: RemoteWorker.terminate caches _dead when   *)
(* it answers False (must be rejected by C04_Truthful: the next wait() says True).          *)
(*                                                                                        *)
(* Fix = set of proposed repairs that are applied:                                        *)
(*   "poll"   ProcessWorker.terminate polls the control pipe with the timeout             *)
(*   "kill"   force-terminate escalates SIGTERM -> SIGKILL (process.py, remote.py)        *)
(*   "noself" RemoteWorker.terminate(force) releases the frontend thread by shutting the  *)
(*            data socket instead of sending SIGTERM to the calling process               *)
(* Fix = {} is the code as it is.                                                         *)
EXTENDS Naturals, Sequences, FiniteSets, TLC, LifecycleProps

CONSTANTS Fix, MaxOps, Free, Hist, Cases, ReportMeansDead, RemDeadMeansDead, CacheDeadOnFalse, RebuildRaises, StaleAliveAfterKill, HiddenDeadline

VARIABLES case,   \* the scenario (constant after Init): [id, kind, pers, beh, start, ops]
          c,      \* child process/thread
          p,      \* caller
          s       \* server side of the remote kind (R), sockets, frontend thread F
vars == <<case, c, p, s>>

Kind    == case.kind
Pers    == case.pers = "T"
Started == case.start # "notrun"
Remote  == Kind = "remote"

OpT(o) == IF o \in {"wait0", "term0", "term0F"} THEN "0" ELSE "t"
OpForce(o) == o \in ForceOps
OpN(o) == CASE o \in {"wait0", "waitT", "waitL"} -> "wait" [] o \in {"term0", "termT", "term0F", "termTF"} -> "term"
            [] OTHER -> o
Alphabet == IF Kind = "thread" THEN {"wait0", "waitT", "term0", "termT", "alive", "close"}
            ELSE IF Kind = "remote" THEN {"wait0", "waitT", "waitL", "term0", "termT", "term0F", "termTF", "alive", "close"}
            ELSE {"wait0", "waitT", "term0", "termT", "term0F", "termTF", "alive", "close"}

Init ==
  /\ case \in Cases
  /\ LET live == case.start = "run" IN
     /\ c = [cos |-> IF live THEN (IF case.beh = "frozen" THEN "frozen" ELSE "run") ELSE "dead",
             sigT |-> FALSE, sigK |-> FALSE,
             cpc |-> IF live THEN "target" ELSE "gone",
             async |-> FALSE, rel |-> FALSE,
             kpc |-> IF live /\ case.kind # "thread" THEN "recv" ELSE "done",
             kbox |-> <<>>, termReq |-> FALSE,
             ctrlOpen |-> live /\ case.kind = "process",
             resSent |-> case.start = "dead"]
     /\ p = [pc |-> "idle", cur |-> "none", deadF |-> FALSE, remDead |-> FALSE, closed |-> FALSE,
             waited |-> FALSE, nops |-> 0, k |-> 0, pre |-> "none", selfk |-> FALSE, fshut |-> FALSE,
             stopped |-> FALSE, said |-> FALSE, calls |-> <<>>]
     /\ LET rem == case.kind = "remote" /\ case.start # "notrun" IN
        s = [rpc |-> IF rem THEN "idle" ELSE "done", rmsg |-> "none", rrep |-> "none",
             rsock |-> rem, fab |-> FALSE, dup |-> rem, fpc |-> IF rem THEN (IF case.beh = "slowres" THEN "busy" ELSE "wait") ELSE "done"]

Dead == c.cos = "dead"
OsNow   == IF Dead THEN "dead" ELSE "alive"
OsGrace == IF Dead \/ c.sigK \/ (c.sigT /\ c.cos \in {"run", "frozen"}) THEN "dead" ELSE "alive"
PreNow  == IF ~Started \/ (Dead /\ (Remote => s.fpc = "done")) THEN "dead" ELSE "alive"

(* ------------------------------- the child -------------------------------------------- *)
\* C needs the interpreter: nothing of the child runs unless cos = "run"
G_Land == c.cos = "run" /\ c.cpc = "target" /\ c.async /\ case.beh \in {"coop", "swallow"}
G_Wake == c.cos = "run" /\ c.cpc = "target" /\ case.beh \in {"idle", "slowres"} /\ c.rel
G_Fin  == c.cos = "run" /\ (c.cpc \in {"fin_rel", "exit"} \/ (c.cpc = "fin_join" /\ c.kpc = "done"))
G_Ret  == c.cos = "run" /\ c.cpc = "target" /\ case.beh \in {"linger", "unreb"}          \* the target returns at once
G_K    == c.cos = "run" /\ c.kpc # "done" /\ (c.kpc = "recv" => c.kbox # <<>>)
G_Die  == ~Dead /\ (c.sigK \/ (c.sigT /\ c.cos \in {"run", "frozen"}))
QuietChild == ~(G_Land \/ G_Wake \/ G_Fin \/ G_Ret \/ G_K \/ G_Die)    \* (LingerEnd is slower than any timeout: not counted)

Land == /\ G_Land
        /\ c' = IF case.beh = "coop" THEN [c EXCEPT !.async = FALSE, !.cpc = "fin_rel"]   \* except Exception -> finally
                ELSE [c EXCEPT !.async = FALSE]                                              \* swallowed, the loop goes on
        /\ UNCHANGED <<case, p, s>>
Wake == /\ G_Wake                                    \* released while waiting for input: do_work ends
        /\ c' = [c EXCEPT !.cpc = "fin_rel", !.async = FALSE]
        /\ UNCHANGED <<case, p, s>>
Fin  == /\ G_Fin
        /\ c' = CASE c.cpc = "fin_rel" ->
                      IF c.kpc # "done" /\ (Kind = "process" => ~c.termReq)
                      THEN [c EXCEPT !.kbox = Append(@, "None"), !.cpc = "fin_join"]        \* release + join the control thread
                      ELSE [c EXCEPT !.cpc = "exit"]
                  [] c.cpc = "fin_join" -> [c EXCEPT !.cpc = "exit"]
                  [] c.cpc = "exit" -> IF case.beh = "linger"     \* result sent, pipes closed - the interpreter now waits for the thread left behind
                                       THEN [c EXCEPT !.cpc = "linger", !.kpc = "done", !.ctrlOpen = FALSE, !.resSent = TRUE, !.async = FALSE]
                                       ELSE [c EXCEPT !.cos = "dead", !.cpc = "gone", !.kpc = "done", !.ctrlOpen = FALSE, !.resSent = TRUE]
        /\ UNCHANGED <<case, p, s>>
Return == /\ G_Ret
          /\ c' = [c EXCEPT !.cpc = "fin_rel", !.async = FALSE]
          /\ UNCHANGED <<case, p, s>>
LingerEnd == /\ c.cos = "run" /\ c.cpc = "linger"           \* the thread left behind ends: the process exits at last
             /\ c' = [c EXCEPT !.cos = "dead", !.cpc = "gone"]
             /\ UNCHANGED <<case, p, s>>
KStep == /\ G_K
         /\ c' = CASE c.kpc = "recv" ->
                       IF Head(c.kbox) = "None"
                       THEN [c EXCEPT !.kbox = Tail(@), !.kpc = "done", !.ctrlOpen = FALSE]
                       ELSE [c EXCEPT !.kbox = Tail(@), !.kpc = "raise", !.termReq = TRUE]
                   [] c.kpc = "raise" -> [c EXCEPT !.async = (c.cpc = "target"), !.kpc = "close"]   \* foreign_raise
                   [] c.kpc = "close" -> [c EXCEPT !.kpc = "done", !.ctrlOpen = FALSE]
         /\ UNCHANGED <<case, p, s>>
Die == /\ G_Die
       /\ c' = [c EXCEPT !.cos = "dead", !.cpc = "gone", !.kpc = "done", !.ctrlOpen = FALSE]
       /\ UNCHANGED <<case, p, s>>

(* ------------------------------- server side (remote kind) ----------------------------- *)
RTimeout(t) == t = "0" \/ QuietChild
G_R == /\ s.rpc # "done"
       /\ CASE s.rpc = "idle" -> Dead \/ s.rmsg # "none"
            [] s.rpc \in {"r_wjoin", "r_tj1", "r_tj2", "r_tj3"} -> Dead \/ RTimeout(OpT(p.cur))
            [] OTHER -> TRUE
DataEOF == Dead /\ ~s.dup
G_F == /\ s.fpc \notin {"done", "busy"}
       /\ IF s.fpc = "wait" THEN c.resSent \/ s.fab \/ DataEOF \/ p.fshut ELSE DataEOF \/ p.fshut

RepNow == IF Dead THEN "T" ELSE "F"
RStep ==
  /\ G_R
  /\ CASE s.rpc = "idle" ->
          IF Dead                                   \* the child's sentinel has priority (remote.py:679-686)
          THEN s' = [s EXCEPT !.rpc = "done", !.rsock = FALSE, !.dup = FALSE] /\ UNCHANGED c
          ELSE /\ UNCHANGED c
               /\ s' = (CASE s.rmsg = "rel"   -> [s EXCEPT !.rmsg = "none", !.rpc = "done", !.rsock = FALSE]
                          [] s.rmsg = "alive" -> [s EXCEPT !.rmsg = "none", !.rrep = "T"]
                          [] s.rmsg = "wait"  -> [s EXCEPT !.rmsg = "none", !.rpc = "r_wjoin"]
                          [] s.rmsg = "term"  -> [s EXCEPT !.rmsg = "none", !.rpc = "r_tput"])
       [] s.rpc = "r_wjoin" -> s' = [s EXCEPT !.rrep = RepNow, !.rpc = "idle"] /\ UNCHANGED c
       [] s.rpc = "r_tput" ->
          IF Dead THEN s' = [s EXCEPT !.rrep = "T", !.rpc = "idle"] /\ UNCHANGED c
          ELSE /\ c' = [c EXCEPT !.kbox = Append(@, "terminate"), !.rel = (@ \/ Pers)]   \* ctrl pipe; _release_child = shutdown(SHUT_RD)
               /\ s' = [s EXCEPT !.rpc = "r_tj1"]
       [] s.rpc = "r_tj1" -> s' = [s EXCEPT !.rpc = IF ~Dead /\ OpForce(p.cur) THEN "r_tsig" ELSE "r_trep"] /\ UNCHANGED c
       [] s.rpc = "r_tsig" -> c' = [c EXCEPT !.sigT = TRUE] /\ s' = [s EXCEPT !.rpc = "r_tj2"]
       [] s.rpc = "r_tj2" -> s' = [s EXCEPT !.rpc = IF ~Dead /\ "kill" \in Fix THEN "r_tkill" ELSE "r_tfab"] /\ UNCHANGED c
       [] s.rpc = "r_tkill" -> c' = [c EXCEPT !.sigK = TRUE] /\ s' = [s EXCEPT !.rpc = "r_tj3"]
       [] s.rpc = "r_tj3" -> s' = [s EXCEPT !.rpc = "r_tfab"] /\ UNCHANGED c
       [] s.rpc = "r_tfab" -> s' = [s EXCEPT !.fab = TRUE, !.dup = FALSE, !.rpc = "r_trep"] /\ UNCHANGED c   \* send (False, None); close
       [] s.rpc = "r_trep" -> s' = [s EXCEPT !.rrep = RepNow, !.rpc = "idle"] /\ UNCHANGED c
  /\ UNCHANGED <<case, p>>

FStep == /\ G_F
         /\ s' = IF s.fpc = "wait" /\ ~c.resSent /\ s.fab /\ ~p.fshut
                 THEN [s EXCEPT !.fpc = "ust"]       \* took the fabricated result, now blocks on the user-state frame
                 ELSE [s EXCEPT !.fpc = "done"]
         /\ UNCHANGED <<case, c, p>>

SlowEnd == /\ s.fpc = "busy"                   \* the frontend thread is done with the slow result (slower than any timeout: not part of G_F)
           /\ s' = [s EXCEPT !.fpc = "wait"]
           /\ UNCHANGED <<case, c, p>>

(* ------------------------------- the caller -------------------------------------------- *)
PTimeout(t) == t = "0" \/ (QuietChild /\ ~G_R /\ ~G_F)
T  == OpT(p.cur)
Fc == OpForce(p.cur)
N  == OpN(p.cur)

RecW(v, w) == [op |-> p.cur, ret |-> v, durc |-> "ok", fast |-> IF p.waited \/ w THEN "F" ELSE "T", pre |-> p.pre,
               os_ret |-> OsNow, os_grace |-> OsGrace, selfsig |-> "F", thr_ret |-> IF Remote /\ Started /\ s.fpc # "done" THEN "alive" ELSE "gone", after_true |-> IF p.said THEN "T" ELSE "F"]
Rec(v) == RecW(v, FALSE)
RetW(v, dead, w) == p' = [p EXCEPT !.pc = "idle", !.nops = @ + 1, !.deadF = (@ \/ dead), !.said = (@ \/ (p.cur \in WTOps /\ v = "T")),
                                   !.calls = IF Hist THEN Append(@, RecW(v, w)) ELSE <<RecW(v, w)>>]
Ret(v, dead) == RetW(v, dead, FALSE)
Goto(l) == p' = [p EXCEPT !.pc = l]
GotoW(l, w) == p' = [p EXCEPT !.pc = l, !.waited = (@ \/ w)]

Begin(o) ==
  /\ p.pc = "idle"
  /\ IF Free THEN p.nops < MaxOps /\ o \in Alphabet ELSE p.k < Len(case.ops) /\ o = case.ops[p.k + 1]
  /\ o # "stop"
  /\ p' = [p EXCEPT !.pc = (CASE OpN(o) = "wait" -> "w_chk" [] OpN(o) = "term" -> "t_chk" [] OpN(o) = "alive" -> "a_chk" [] OTHER -> "c_do"),
                    !.cur = o, !.waited = FALSE, !.k = @ + 1, !.pre = PreNow]
  /\ UNCHANGED <<case, c, s>>

\* environment: SIGSTOP (state T awaited by the harness before the next call)
Stop ==
  /\ p.pc = "idle" /\ ~p.stopped /\ Kind # "thread" /\ c.cos \in {"run", "frozen"}
  /\ IF Free THEN p.nops < MaxOps ELSE p.k < Len(case.ops) /\ case.ops[p.k + 1] = "stop"
  /\ c' = [c EXCEPT !.cos = "stopped"]
  /\ p' = [p EXCEPT !.stopped = TRUE, !.k = @ + 1]
  /\ UNCHANGED <<case, s>>
\* a "stop" in a plan that finds the child dead is a no-op
StopNoop ==
  /\ ~Free /\ p.pc = "idle" /\ p.k < Len(case.ops) /\ case.ops[p.k + 1] = "stop"
  /\ ~(~p.stopped /\ Kind # "thread" /\ c.cos \in {"run", "frozen"})
  /\ p' = [p EXCEPT !.k = @ + 1]
  /\ UNCHANGED <<case, c, s>>

Release == c' = [c EXCEPT !.rel = (@ \/ ~p.closed)]

PStep ==
  /\ p.pc \notin {"idle", "selfkill"}
  /\ CASE p.pc \in {"w_chk", "t_chk"} ->
          IF ~Started \/ p.deadF \/ (RemDeadMeansDead /\ Remote /\ p.pc = "t_chk" /\ p.remDead) THEN Ret("T", FALSE) /\ UNCHANGED <<c, s>>
          ELSE IF Remote THEN Goto(IF p.pc = "w_chk" /\ Pers THEN "w_close" ELSE IF p.remDead THEN "x_joinF" ELSE "x_send") /\ UNCHANGED <<c, s>>
          ELSE IF Dead THEN Ret("T", TRUE) /\ UNCHANGED <<c, s>>
          ELSE Goto(IF p.pc = "w_chk" THEN (IF Pers THEN "w_close" ELSE "w_join")
                    ELSE IF Kind = "thread" THEN "t_raise" ELSE "t_put") /\ UNCHANGED <<c, s>>
       \* ---- wait ----
       [] p.pc = "w_close" ->          \* persistent kinds: wait() closes the input first
          /\ IF Remote /\ s.fpc = "done" THEN UNCHANGED c ELSE Release
          /\ p' = [p EXCEPT !.closed = TRUE, !.pc = IF Remote THEN (IF p.remDead THEN "x_joinF" ELSE "x_send") ELSE "w_join"]
          /\ UNCHANGED s
       [] p.pc = "w_join" ->           \* join(timeout)
          /\ Dead \/ PTimeout(T)
          /\ LET believed == Dead \/ (ReportMeansDead /\ Kind = "process" /\ c.resSent)       \* the code asks the OS (is_alive)
                 boom == RebuildRaises /\ Kind = "process" /\ case.beh = "unreb" /\ c.resSent IN  \* _join_child: the final message cannot be rebuilt
             RetW(IF boom THEN "raised" ELSE IF believed THEN "T" ELSE "F", believed /\ ~boom, ~Dead /\ T = "t") /\ UNCHANGED <<c, s>>
       \* ---- terminate, thread kind ----
       [] p.pc = "t_raise" ->          \* foreign_raise + _release_child
          /\ c' = [c EXCEPT !.async = (c.cpc = "target"), !.rel = (@ \/ (Pers /\ ~p.closed))]
          /\ p' = [p EXCEPT !.pc = "t_join1", !.closed = (@ \/ Pers)] /\ UNCHANGED s
       \* ---- terminate, process kind (process.py:82-115) ----
       [] p.pc = "t_put" ->
          IF c.ctrlOpen THEN c' = [c EXCEPT !.kbox = Append(@, "terminate")] /\ Goto("t_get") /\ UNCHANGED s
          ELSE Goto("t_rel") /\ UNCHANGED <<c, s>>                     \* BrokenPipeError / EOF at once
       [] p.pc = "t_get" ->            \* parent_end.get(): NO timeout in the code
          /\ ~c.ctrlOpen \/ ("poll" \in Fix /\ PTimeout(T))
          /\ GotoW("t_rel", c.ctrlOpen /\ T = "t") /\ UNCHANGED <<c, s>>
       [] p.pc = "t_rel" ->            \* _release_child (persistent: send None on the args pipe)
          /\ IF Pers THEN Release ELSE UNCHANGED c
          /\ p' = [p EXCEPT !.pc = "t_join1", !.closed = (@ \/ Pers)] /\ UNCHANGED s
       [] p.pc = "t_join1" ->
          /\ Dead \/ PTimeout(T)
          /\ GotoW(IF ~Dead /\ Fc THEN "t_sigterm" ELSE "t_ret", ~Dead /\ T = "t") /\ UNCHANGED <<c, s>>
       [] p.pc = "t_sigterm" -> c' = [c EXCEPT !.sigT = TRUE] /\ Goto("t_join2") /\ UNCHANGED s
       [] p.pc = "t_join2" ->
          /\ Dead \/ PTimeout(T)
          /\ GotoW(IF ~Dead /\ "kill" \in Fix THEN "t_sigkill" ELSE "t_ret", ~Dead /\ T = "t") /\ UNCHANGED <<c, s>>
       [] p.pc = "t_sigkill" -> c' = [c EXCEPT !.sigK = TRUE] /\ Goto("t_join3") /\ UNCHANGED s
       [] p.pc = "t_join3" ->
          /\ Dead \/ PTimeout(T)
          /\ GotoW("t_ret", ~Dead /\ T = "t") /\ UNCHANGED <<c, s>>
       [] p.pc = "t_ret" -> (IF StaleAliveAfterKill /\ c.sigK THEN Ret("F", FALSE) ELSE Ret(RepNow, Dead)) /\ UNCHANGED <<c, s>>
       \* ---- wait / terminate, remote kind, parent side (remote.py:223-275, 277-358) ----
       [] p.pc = "x_send" ->
          IF s.rsock THEN s' = [s EXCEPT !.rmsg = N] /\ Goto("x_recv") /\ UNCHANGED c
          ELSE p' = [p EXCEPT !.remDead = TRUE, !.pc = "x_joinF"] /\ UNCHANGED <<c, s>>      \* ConnectionClosedError: assume dead
       [] p.pc = "x_recv" /\ HiddenDeadline /\ p.cur = "waitL" /\ s.rrep = "none" /\ s.rpc = "r_wjoin" /\ QuietChild ->
          \* the forgotten socket timeout fires before the server's answer: read as "connection closed"
          p' = [p EXCEPT !.remDead = TRUE, !.pc = "x_joinF", !.waited = TRUE] /\ s' = [s EXCEPT !.rsock = FALSE] /\ UNCHANGED c
       [] p.pc = "x_recv" /\ ~(HiddenDeadline /\ p.cur = "waitL" /\ s.rrep = "none" /\ s.rpc = "r_wjoin" /\ QuietChild) ->
          \* recv_msg on the control socket: NO timeout in the code
          /\ s.rrep # "none" \/ ~s.rsock
          /\ IF s.rrep # "none"
             THEN /\ s' = [s EXCEPT !.rrep = "none"]
                  /\ IF s.rrep = "F" THEN Ret("F", FALSE) ELSE Goto("x_rel")
             ELSE p' = [p EXCEPT !.remDead = TRUE, !.pc = "x_joinF"] /\ UNCHANGED s
          /\ UNCHANGED c
       [] p.pc = "x_rel" ->            \* send None (release R), close the control socket
          /\ s' = IF s.rsock THEN [s EXCEPT !.rmsg = "rel"] ELSE s
          /\ p' = [p EXCEPT !.remDead = TRUE, !.pc = "x_joinF"] /\ UNCHANGED c
       [] p.pc = "x_joinF" ->          \* self._child.join(timeout): the frontend thread
          /\ s.fpc = "done" \/ PTimeout(T)
          /\ GotoW(IF s.fpc # "done" /\ N = "term" /\ Fc THEN "x_fdec" ELSE "x_ret", s.fpc # "done" /\ T = "t")
          /\ UNCHANGED <<c, s>>
       [] p.pc = "x_fdec" ->           \* remote.py:352-353: os.kill(os.getpid(), SIGTERM)
          IF "noself" \in Fix THEN p' = [p EXCEPT !.fshut = TRUE, !.pc = "x_joinF2"] /\ UNCHANGED <<c, s>>
          ELSE p' = [p EXCEPT !.selfk = TRUE, !.pc = "selfkill"] /\ UNCHANGED <<c, s>>
       [] p.pc = "x_joinF2" ->
          /\ s.fpc = "done" \/ PTimeout(T)
          /\ GotoW("x_ret", s.fpc # "done" /\ T = "t") /\ UNCHANGED <<c, s>>
       [] p.pc = "x_ret" -> Ret(IF s.fpc = "done" THEN "T" ELSE "F", IF CacheDeadOnFalse THEN s.fpc # "done" ELSE s.fpc = "done") /\ UNCHANGED <<c, s>>
       \* ---- is_alive ("T" = alive) ----
       [] p.pc = "a_chk" ->
          IF ~Started \/ p.deadF THEN Ret("F", FALSE) /\ UNCHANGED <<c, s>>
          ELSE IF ~Remote THEN Ret(IF Dead THEN "F" ELSE "T", Dead) /\ UNCHANGED <<c, s>>
          ELSE IF s.fpc # "done" THEN Ret("T", FALSE) /\ UNCHANGED <<c, s>>
          ELSE IF p.remDead THEN Ret("F", TRUE) /\ UNCHANGED <<c, s>>
          ELSE IF s.rsock THEN s' = [s EXCEPT !.rmsg = "alive"] /\ Goto("a_recv") /\ UNCHANGED c
          ELSE p' = [p EXCEPT !.remDead = TRUE, !.pc = "a_ret"] /\ UNCHANGED <<c, s>>
       [] p.pc = "a_recv" ->
          /\ s.rrep # "none" \/ ~s.rsock
          /\ IF s.rrep = "T" THEN s' = [s EXCEPT !.rrep = "none"] /\ Ret("T", FALSE)
             ELSE s' = [s EXCEPT !.rrep = "none"] /\ p' = [p EXCEPT !.remDead = TRUE, !.pc = "a_ret"]
          /\ UNCHANGED c
       [] p.pc = "a_ret" -> Ret("F", TRUE) /\ UNCHANGED <<c, s>>
       \* ---- close ----
       [] p.pc = "c_do" ->
          /\ IF Pers /\ Started /\ ~p.deadF /\ (IF Remote THEN s.fpc # "done" ELSE ~Dead \/ Kind = "process")
             THEN Release /\ p' = [p EXCEPT !.pc = "idle", !.nops = @ + 1, !.closed = TRUE,
                                            !.calls = IF Hist THEN Append(@, Rec("none")) ELSE <<Rec("none")>>]
             ELSE UNCHANGED c /\ Ret("none", FALSE)
          /\ UNCHANGED s
  /\ UNCHANGED case

Next == (\E o \in Alphabet : Begin(o)) \/ Stop \/ StopNoop \/ PStep \/ Land \/ Wake \/ Fin \/ Return \/ LingerEnd \/ KStep \/ Die \/ RStep \/ FStep \/ SlowEnd
Spec == /\ Init /\ [][Next]_vars
        /\ WF_vars(PStep) /\ WF_vars(Land) /\ WF_vars(Wake) /\ WF_vars(Fin) /\ WF_vars(Return) /\ WF_vars(LingerEnd) /\ WF_vars(KStep) /\ WF_vars(Die)
        /\ WF_vars(RStep) /\ WF_vars(FStep) /\ WF_vars(SlowEnd)

(* ------------------------------- properties -------------------------------------------- *)
Scn == [kind |-> case.kind, pers |-> case.pers, beh |-> case.beh, start |-> case.start]
Obs == [calls |-> p.calls]
R0  == [scn |-> Scn, obs |-> Obs]
AtRest == p.pc = "idle"

TypeOK == /\ c.cos \in {"run", "frozen", "stopped", "dead"}
          /\ c.kpc \in {"recv", "raise", "close", "done"}
          /\ c.cpc \in {"target", "fin_rel", "fin_join", "exit", "linger", "gone"}
          /\ s.fpc \in {"busy", "wait", "ust", "done"}
          /\ p.nops <= MaxOps \/ ~Free
Inv_Truthful == AtRest => C04_Truthful(R0)
Inv_DeadFast == AtRest => C04_DeadFast(R0)
Inv_Force    == AtRest => C04_Force(R0)
Inv_Stable   == AtRest => C04_Stable(R0)
Inv_NoSelfKill == ~p.selfk
Inv_Returns  == AtRest => C04_Returns(R0)
\* wait/terminate always come back: every call in progress eventually returns
Live_Returns == (p.pc # "idle") ~> (p.pc = "idle")

\* ---- witnesses (expected to be violated: the antecedents are reachable) ----
W_TrueAnswer   == ~(AtRest /\ p.calls # <<>> /\ p.calls[Len(p.calls)].ret = "T" /\ p.calls[Len(p.calls)].pre = "alive")
W_DeadCall     == ~(AtRest /\ p.calls # <<>> /\ p.calls[Len(p.calls)].pre = "dead" /\ Started /\ p.calls[Len(p.calls)].op \in WTOps)
W_ForceStopped == ~(AtRest /\ p.calls # <<>> /\ p.calls[Len(p.calls)].op \in ForceOps /\ p.stopped /\ p.calls[Len(p.calls)].pre = "alive")
W_ForceFrozen  == ~(AtRest /\ p.calls # <<>> /\ p.calls[Len(p.calls)].op \in ForceOps /\ case.beh = "frozen" /\ p.calls[Len(p.calls)].pre = "alive")
W_Swallowed    == ~(case.beh = "swallow" /\ c.termReq /\ ~c.async /\ c.cpc = "target" /\ c.kpc = "done" /\ c.cos = "run")

\* ---- behaviours of the planned cases, for replay and conformance (Free = FALSE, Hist = TRUE) ----
PlanDone == p.pc = "idle" /\ p.k = Len(case.ops)
Stuck    == p.pc \notin {"idle", "selfkill"} /\ ~ENABLED Next
RECURSIVE RetStr(_, _)
RetStr(cs, k) == IF k > Len(cs) THEN "" ELSE cs[k].ret \o (IF k < Len(cs) THEN "," ELSE "") \o RetStr(cs, k + 1)
Outcome == RetStr(p.calls, 1) \o (IF PlanDone THEN "" ELSE (IF p.calls = <<>> THEN "" ELSE ",") \o (IF p.pc = "selfkill" THEN "selfkill" ELSE "hung"))
PathDump == (PlanDone \/ Stuck \/ p.pc = "selfkill") => PrintT(<<"PATH", case.id, Outcome>>)
=============================================================================
