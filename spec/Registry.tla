------------------------------- MODULE Registry -------------------------------
(* Worker._active_children (pyworkers/worker.py) under Worker._children_lock.               *)
(*   Create     Worker.__init__: a worker that is run is started and, if alive,             *)
(*              register_child (lock; append); a worker that is not run is never registered *)
(*   Die        the child finishes / is terminated / is killed (environment, any time)      *)
(*   active_children() by a caller thread t, by critical section:                           *)
(*     Begin; Lock; PruneCopy (prune the dead, snapshot copy - both inside the lock);       *)
(*     Release; Return (the snapshot is yielded)                                            *)
(*   Restart    PersistentWorker.restart() of a dead worker: __init__(_is_restart=True)     *)
(*   Auto       leaving an autoclose_active_children() block: close / wait / terminate      *)
(*              every yielded worker                                                        *)
(* Switches (TRUE = the algorithm the spec stands for = the code since /repo commit         *)
(* 14d7ee1; FALSE = what the code did before; TLC must reject it):                          *)
(*   FixPrune   FALSE: the pruned list is assigned to a different attribute (Worker.        *)
(*              _children), so the registry never shrinks and the unpruned list is yielded  *)
(*   FixRestart FALSE: register_child is skipped when _is_restart (a worker that was        *)
(*              pruned while dead stays unregistered after restart())                       *)
(*   PruneOutsideLock TRUE: active_children() copies the registry under the lock, evaluates *)
(*              is_alive() on the copy WITHOUT the lock and re-takes the lock only to store *)
(*              the pruned copy: a worker registered (constructor / restart() in another    *)
(*              thread) inside that window is overwritten by the stale copy - alive, never  *)
(*              yielded again, not closed by autoclose.  TLC must reject it (C19_Exact).    *)
(*   AutoFinally FALSE: the clean-up of autoclose_active_children is not in a finally clause: *)
(*              a block that is left through an exception closes nobody                     *)
(*   held[w]    scenario: does the caller keep the object the constructor returned?  The    *)
(*              registry, not the caller, owns the reference: nothing may depend on held    *)
(*              (a fire-and-forget worker inside an autoclose block is the normal use).     *)
(*   WeakRegistry TRUE: the registry stores weak references: a worker nobody else references *)
(*              (a process worker whose handle was dropped) disappears from it while its    *)
(*              child keeps running - not yielded, not closed by autoclose.  TLC rejects it. *)
EXTENDS Naturals, Sequences, FiniteSets, TLC, RegistryProps

CONSTANTS N, Threads, MaxSteps, FixPrune, FixRestart, PruneOutsideLock, WeakRegistry, HeldSet, AutoFinally, Hist, Atomic, Ops

VARIABLES held, st, pers, reg, lock, tpc, mayv, mustv, diedc, snap, calls, autos, ncreated, nsteps, h
vars == <<held, st, pers, reg, lock, tpc, mayv, mustv, diedc, snap, calls, autos, ncreated, nsteps, h>>

W == 1..N
Live == {w \in W : st[w] = "live"}
RECURSIVE SeqOf(_)
SeqOf(S) == IF S = {} THEN <<>> ELSE LET m == CHOOSE x \in S : \A y \in S : x <= y IN <<m>> \o SeqOf(S \ {m})
Alive(s) == SelectSeq(s, LAMBDA w : st[w] = "live")
Retained(s) == Cardinality({w \in Range(s) : st[w] = "dead"})
Idle == \A t \in Threads : tpc[t] = "idle"

Init == /\ st = [w \in W |-> "none"] /\ pers = [w \in W |-> FALSE] /\ held = [w \in W |-> TRUE]
        /\ reg = <<>> /\ lock = 0
        /\ tpc = [t \in Threads |-> "idle"] /\ mayv = [t \in Threads |-> {}] /\ mustv = [t \in Threads |-> {}] /\ diedc = [t \in Threads |-> 0]
        /\ snap = [t \in Threads |-> <<>>]
        /\ calls = <<>> /\ autos = <<>> /\ ncreated = 0 /\ nsteps = 0 /\ h = <<>>

Log(e) == /\ h' = (IF Hist THEN Append(h, e) ELSE h) /\ nsteps' = nsteps + 1
Budget == nsteps < MaxSteps

Create(run, p, hd) ==
   /\ "create" \in Ops /\ Budget /\ ncreated < N /\ lock = 0
   /\ (hd \/ (run /\ ~p))              \* scenarios drop the handle of running one-shot workers only
   /\ held' = [held EXCEPT ![ncreated + 1] = hd]
   /\ LET w == ncreated + 1 IN
      /\ st' = [st EXCEPT ![w] = IF run THEN "live" ELSE "norun"]
      /\ pers' = [pers EXCEPT ![w] = p]
      /\ reg' = (IF run /\ (hd \/ ~WeakRegistry) THEN Append(reg, w) ELSE reg)
      /\ Log(<<"create", w, IF run THEN "run" ELSE "norun", IF p THEN "pers" ELSE IF hd THEN "once" ELSE "once-unheld">>)
   /\ ncreated' = ncreated + 1
   /\ mayv' = [t \in Threads |-> IF tpc[t] # "idle" /\ run THEN mayv[t] \cup {ncreated + 1} ELSE mayv[t]]
   /\ UNCHANGED <<lock, tpc, mustv, diedc, snap, calls, autos>>

Die(w) == /\ "die" \in Ops /\ Budget /\ st[w] = "live"
          /\ st' = [st EXCEPT ![w] = "dead"]
          /\ diedc' = [t \in Threads |-> IF tpc[t] # "idle" THEN diedc[t] + 1 ELSE diedc[t]]
          /\ Log(<<"die", w, "-", "-">>)
          /\ mustv' = [t \in Threads |-> mustv[t] \ {w}]
          /\ UNCHANGED <<held, pers, reg, lock, tpc, mayv, snap, calls, autos, ncreated>>

\* restart() of a dead persistent worker (restart of a live one = Die, then this)
Restart(w) == /\ "restart" \in Ops /\ Budget /\ pers[w] /\ st[w] = "dead" /\ lock = 0
              /\ st' = [st EXCEPT ![w] = "live"]
              /\ reg' = (IF FixRestart /\ w \notin Range(reg) THEN Append(reg, w) ELSE reg)
              /\ Log(<<"restart", w, "-", "-">>)
              /\ mayv' = [t \in Threads |-> IF tpc[t] # "idle" THEN mayv[t] \cup {w} ELSE mayv[t]]
              /\ UNCHANGED <<held, pers, lock, tpc, mustv, diedc, snap, calls, autos, ncreated>>

Pruned == IF FixPrune THEN Alive(reg) ELSE reg
CallRec(t, y, lb, d) == [t |-> t, y |-> y, lb |-> lb, la |-> SeqOf(Live), retained |-> Retained(reg'), died |-> d]

\* the whole call as one step (sequential histories for replay)
AcAtomic(t) == /\ Atomic /\ "ac" \in Ops /\ Budget /\ Idle /\ lock = 0
               /\ reg' = Pruned
               /\ calls' = Append(calls, CallRec(t, Pruned, SeqOf(Live), 0))
               /\ Log(<<"ac", t, "-", "-">>)
               /\ UNCHANGED <<held, st, pers, lock, tpc, mayv, mustv, diedc, snap, autos, ncreated>>

Begin(t) == /\ ~Atomic /\ "ac" \in Ops /\ Budget /\ tpc[t] = "idle"
            /\ tpc' = [tpc EXCEPT ![t] = "want"]
            /\ mayv' = [mayv EXCEPT ![t] = Live] /\ mustv' = [mustv EXCEPT ![t] = Live] /\ diedc' = [diedc EXCEPT ![t] = 0]
            /\ Log(<<"ac", t, "-", "-">>)
            /\ UNCHANGED <<held, st, pers, reg, lock, snap, calls, autos, ncreated>>
Lock(t) == /\ tpc[t] = "want" /\ lock = 0
           /\ lock' = t /\ tpc' = [tpc EXCEPT ![t] = "locked"]
           /\ UNCHANGED <<held, st, pers, reg, mayv, mustv, diedc, snap, calls, autos, ncreated, nsteps, h>>
PruneCopy(t) == /\ tpc[t] = "locked" /\ ~PruneOutsideLock
                /\ reg' = Pruned /\ snap' = [snap EXCEPT ![t] = Pruned]
                /\ tpc' = [tpc EXCEPT ![t] = "copied"]
                /\ UNCHANGED <<held, st, pers, lock, mayv, mustv, diedc, calls, autos, ncreated, nsteps, h>>
\* the variant with two lock sections: copy; release; filter the copy (no lock); lock again; store
CopyOnly(t) == /\ tpc[t] = "locked" /\ PruneOutsideLock
               /\ snap' = [snap EXCEPT ![t] = reg] /\ lock' = 0
               /\ tpc' = [tpc EXCEPT ![t] = "filter"]
               /\ UNCHANGED <<held, st, pers, reg, mayv, mustv, diedc, calls, autos, ncreated, nsteps, h>>
Filter(t) == /\ tpc[t] = "filter"
             /\ snap' = [snap EXCEPT ![t] = Alive(snap[t])]
             /\ tpc' = [tpc EXCEPT ![t] = "want2"]
             /\ UNCHANGED <<held, st, pers, reg, lock, mayv, mustv, diedc, calls, autos, ncreated, nsteps, h>>
Lock2(t) == /\ tpc[t] = "want2" /\ lock = 0
            /\ lock' = t /\ tpc' = [tpc EXCEPT ![t] = "locked2"]
            /\ UNCHANGED <<held, st, pers, reg, mayv, mustv, diedc, snap, calls, autos, ncreated, nsteps, h>>
Store(t) == /\ tpc[t] = "locked2"
            /\ reg' = snap[t]
            /\ tpc' = [tpc EXCEPT ![t] = "copied"]
            /\ UNCHANGED <<held, st, pers, lock, mayv, mustv, diedc, snap, calls, autos, ncreated, nsteps, h>>
Release(t) == /\ tpc[t] = "copied"
              /\ lock' = 0 /\ tpc' = [tpc EXCEPT ![t] = "yield"]
              /\ UNCHANGED <<held, st, pers, reg, mayv, mustv, diedc, snap, calls, autos, ncreated, nsteps, h>>
Return(t) == /\ tpc[t] = "yield"
             /\ calls' = Append(calls, [t |-> t, y |-> snap[t], lb |-> SeqOf(mayv[t]), la |-> SeqOf(mustv[t]),
                                        retained |-> Retained(reg), died |-> diedc[t]])
             /\ tpc' = [tpc EXCEPT ![t] = "idle"]
             /\ UNCHANGED <<held, st, pers, reg, lock, mayv, mustv, diedc, snap, autos, ncreated, nsteps, h>>

\* leaving an autoclose block: every yielded worker is closed / waited for / terminated
\* exc: the block is left through an exception raised inside it
Auto(exc) ==
        /\ "auto" \in Ops /\ Budget /\ Idle /\ lock = 0
        /\ IF exc /\ ~AutoFinally
           THEN /\ autos' = Append(autos, [after |-> SeqOf(Live)]) /\ UNCHANGED <<reg, st>>
           ELSE /\ reg' = Pruned
                /\ st' = [w \in W |-> IF w \in Range(Pruned) /\ st[w] = "live" THEN "dead" ELSE st[w]]
                /\ autos' = Append(autos, [after |-> SeqOf({w \in Live : w \notin Range(Pruned)})])
        /\ Log(<<IF exc THEN "autoexc" ELSE "auto", 0, "-", "-">>)
        /\ UNCHANGED <<held, pers, lock, tpc, mayv, mustv, diedc, snap, calls, ncreated>>

Next == \/ \E run \in BOOLEAN, p \in BOOLEAN, hd \in HeldSet : Create(run, p, hd)
        \/ \E w \in W : Die(w) \/ Restart(w)
        \/ \E t \in Threads : AcAtomic(t) \/ Begin(t) \/ Lock(t) \/ PruneCopy(t) \/ Release(t) \/ Return(t)
        \/ \E t \in Threads : CopyOnly(t) \/ Filter(t) \/ Lock2(t) \/ Store(t)
        \/ Auto(FALSE) \/ Auto(TRUE)
Spec == Init /\ [][Next]_vars /\ WF_vars(\E t \in Threads : Lock(t) \/ PruneCopy(t) \/ Release(t) \/ Return(t) \/ CopyOnly(t) \/ Filter(t) \/ Lock2(t) \/ Store(t))

Rec == [scn |-> [n |-> ncreated], obs |-> [calls |-> calls, autos |-> autos]]
TypeOK == /\ lock \in {0} \cup Threads /\ Len(reg) <= N
          /\ \A t \in Threads : tpc[t] \in {"idle", "want", "locked", "filter", "want2", "locked2", "copied", "yield"}
Inv_C19_Exact == C19_Exact(Rec)
Inv_C19_Bounded == C19_Bounded(Rec)
Inv_C19_Autoclose == C19_Autoclose(Rec)
\* registry invariants of the fixed algorithm: no duplicates; every live worker is registered
Inv_NoDup == Len(reg) = Cardinality(Range(reg))
Inv_LiveRegistered == Live \subseteq Range(reg)
Live_CallReturns == \A t \in Threads : [](tpc[t] # "idle" => <>(tpc[t] = "idle"))

\* ---- witnesses (expected to be violated) ----
W_NoPrune == ~(\E k \in 1..Len(calls) : Len(calls[k].y) < ncreated /\ Len(calls[k].y) > 0)
W_NoRestartAfterPrune == ~(\E w \in W : st[w] = "live" /\ pers[w] /\ Len(calls) > 0 /\ Len(autos) > 0)
W_NoConcurrentDeath == ~(\E k \in 1..Len(calls) : calls[k].died > 0 /\ calls[k].retained > 0)
\* a registration can be attempted while a caller is between lock and release: in the algorithm it waits
W_NoCreateDuringCall == ~(\E t \in Threads : tpc[t] \in {"copied", "yield"} /\ Cardinality(mayv[t]) > Cardinality(mustv[t]) /\ diedc[t] = 0)
W_NoUnheldYielded == ~(\E k \in 1..Len(calls) : \E w \in Range(calls[k].y) : ~held[w])
W_NoTwoCallers == ~(\E t1, t2 \in Threads : t1 # t2 /\ tpc[t1] = "yield" /\ tpc[t2] = "yield")

Terminal == nsteps = MaxSteps /\ Idle
PathDump == Terminal => PrintT(<<"PATH", ToString(h), ToString([k \in 1..Len(calls) |-> calls[k].y]), Len(reg)>>)
=============================================================================
